// Package smt: hash-consed SMT terms (Bool, bit-vectors, byte arrays) with
// constant folding and local rewrites, an SMT-LIB2 printer and a driver for a
// persistent solver process.
package smt

import (
	"fmt"
	"math/bits"
	"strings"
)

type Kind uint8

const (
	KBool Kind = iota
	KBV
	KArr // (Array (_ BitVec 64) (_ BitVec 8))
)

type Sort struct {
	K Kind
	W int
}

var (
	Bool = Sort{KBool, 0}
	Arr  = Sort{KArr, 0}
)

func BV(w int) Sort { return Sort{KBV, w} }

func (s Sort) String() string {
	switch s.K {
	case KBool:
		return "Bool"
	case KBV:
		return fmt.Sprintf("(_ BitVec %d)", s.W)
	}
	return "(Array (_ BitVec 64) (_ BitVec 8))"
}

type Op uint8

const (
	OpConst Op = iota
	OpVar
	OpNot
	OpAnd
	OpOr
	OpIte
	OpEq
	OpAdd
	OpSub
	OpMul
	OpUDiv
	OpURem
	OpSDiv
	OpSRem
	OpBAnd
	OpBOr
	OpBXor
	OpShl
	OpLShr
	OpAShr
	OpNeg
	OpBNot
	OpULt
	OpULe
	OpSLt
	OpSLe
	OpConcat
	OpExtract
	OpZExt
	OpSExt
	OpSelect
	OpStore
	OpConstArr
	OpCopy // args: dst, src, doff, soff, n  -> array equal to dst except [doff,doff+n) := src[soff..]
)

var opName = map[Op]string{
	OpNot: "not", OpAnd: "and", OpOr: "or", OpIte: "ite", OpEq: "=",
	OpAdd: "bvadd", OpSub: "bvsub", OpMul: "bvmul", OpUDiv: "bvudiv", OpURem: "bvurem",
	OpSDiv: "bvsdiv", OpSRem: "bvsrem", OpBAnd: "bvand", OpBOr: "bvor", OpBXor: "bvxor",
	OpShl: "bvshl", OpLShr: "bvlshr", OpAShr: "bvashr", OpNeg: "bvneg", OpBNot: "bvnot",
	OpULt: "bvult", OpULe: "bvule", OpSLt: "bvslt", OpSLe: "bvsle", OpConcat: "concat",
	OpSelect: "select", OpStore: "store",
}

type Term struct {
	Op   Op
	Sort Sort
	Args []*Term
	Val  uint64 // OpConst: value (bool: 0/1); OpExtract: hi<<8|lo ; OpZExt/OpSExt: extra bits
	Name string // OpVar
	ID   int
}

// Ctx is a hash-consing context. Not safe for concurrent use; one per worker.
type Ctx struct {
	tab  map[string]*Term
	next int
	vars map[int]map[int]bool
	True, False *Term
}

func NewCtx() *Ctx {
	c := &Ctx{tab: map[string]*Term{}}
	c.True = c.mk(&Term{Op: OpConst, Sort: Bool, Val: 1})
	c.False = c.mk(&Term{Op: OpConst, Sort: Bool, Val: 0})
	return c
}

func (c *Ctx) NumTerms() int { return c.next }

// Vars returns the set of variable IDs occurring in t (memoised).
func (c *Ctx) Vars(t *Term) map[int]bool {
	if c.vars == nil {
		c.vars = map[int]map[int]bool{}
	}
	if v, ok := c.vars[t.ID]; ok {
		return v
	}
	var out map[int]bool
	switch {
	case t.Op == OpVar:
		out = map[int]bool{t.ID: true}
	case len(t.Args) == 1:
		out = c.Vars(t.Args[0])
	default:
		for _, a := range t.Args {
			av := c.Vars(a)
			if len(av) == 0 {
				continue
			}
			if out == nil {
				out = av
				continue
			}
			// copy on first merge
			merged := false
			for k := range av {
				if !out[k] {
					if !merged {
						n := make(map[int]bool, len(out)+len(av))
						for kk := range out {
							n[kk] = true
						}
						out = n
						merged = true
					}
					out[k] = true
				}
			}
		}
	}
	c.vars[t.ID] = out
	return out
}

// Slice returns the conjuncts of pc that are (transitively) connected to the
// query terms through shared variables.
func (c *Ctx) Slice(pc []*Term, query ...*Term) []*Term {
	need := map[int]bool{}
	for _, q := range query {
		for v := range c.Vars(q) {
			need[v] = true
		}
	}
	used := make([]bool, len(pc))
	changed := true
	for changed {
		changed = false
		for i, p := range pc {
			if used[i] {
				continue
			}
			pv := c.Vars(p)
			hit := false
			for v := range pv {
				if need[v] {
					hit = true
					break
				}
			}
			if hit {
				used[i] = true
				changed = true
				for v := range pv {
					need[v] = true
				}
			}
		}
	}
	var out []*Term
	for i, p := range pc {
		if used[i] {
			out = append(out, p)
		}
	}
	return out
}

func (c *Ctx) mk(t *Term) *Term {
	var sb strings.Builder
	fmt.Fprintf(&sb, "%d:%d:%d:%d:%s", t.Op, t.Sort.K, t.Sort.W, t.Val, t.Name)
	for _, a := range t.Args {
		fmt.Fprintf(&sb, ",%d", a.ID)
	}
	k := sb.String()
	if o, ok := c.tab[k]; ok {
		return o
	}
	c.next++
	t.ID = c.next
	c.tab[k] = t
	return t
}

func mask(w int) uint64 {
	if w >= 64 {
		return ^uint64(0)
	}
	return (uint64(1) << uint(w)) - 1
}

func (t *Term) IsConst() bool { return t.Op == OpConst }
func (t *Term) IsTrue() bool  { return t.Op == OpConst && t.Sort.K == KBool && t.Val == 1 }
func (t *Term) IsFalse() bool { return t.Op == OpConst && t.Sort.K == KBool && t.Val == 0 }

// Signed value of a constant BV.
func (t *Term) SVal() int64 {
	w := t.Sort.W
	v := t.Val
	if w < 64 && v&(1<<uint(w-1)) != 0 {
		v |= ^mask(w)
	}
	return int64(v)
}

func (c *Ctx) Const(w int, v uint64) *Term {
	return c.mk(&Term{Op: OpConst, Sort: BV(w), Val: v & mask(w)})
}
func (c *Ctx) BoolC(b bool) *Term {
	if b {
		return c.True
	}
	return c.False
}
func (c *Ctx) Var(name string, s Sort) *Term {
	return c.mk(&Term{Op: OpVar, Sort: s, Name: name})
}

func (c *Ctx) Not(a *Term) *Term {
	if a.IsConst() {
		return c.BoolC(a.Val == 0)
	}
	if a.Op == OpNot {
		return a.Args[0]
	}
	return c.mk(&Term{Op: OpNot, Sort: Bool, Args: []*Term{a}})
}

func (c *Ctx) And(as ...*Term) *Term {
	var out []*Term
	for _, a := range as {
		if a.IsFalse() {
			return c.False
		}
		if a.IsTrue() {
			continue
		}
		dup := false
		for _, o := range out {
			if o == a {
				dup = true
			}
			if (o.Op == OpNot && o.Args[0] == a) || (a.Op == OpNot && a.Args[0] == o) {
				return c.False
			}
		}
		if !dup {
			out = append(out, a)
		}
	}
	switch len(out) {
	case 0:
		return c.True
	case 1:
		return out[0]
	}
	return c.mk(&Term{Op: OpAnd, Sort: Bool, Args: out})
}

func (c *Ctx) Or(as ...*Term) *Term {
	var out []*Term
	for _, a := range as {
		if a.IsTrue() {
			return c.True
		}
		if a.IsFalse() {
			continue
		}
		dup := false
		for _, o := range out {
			if o == a {
				dup = true
			}
			if (o.Op == OpNot && o.Args[0] == a) || (a.Op == OpNot && a.Args[0] == o) {
				return c.True
			}
		}
		if !dup {
			out = append(out, a)
		}
	}
	switch len(out) {
	case 0:
		return c.False
	case 1:
		return out[0]
	}
	return c.mk(&Term{Op: OpOr, Sort: Bool, Args: out})
}

func (c *Ctx) Implies(a, b *Term) *Term { return c.Or(c.Not(a), b) }

func (c *Ctx) Ite(cnd, a, b *Term) *Term {
	if cnd.IsConst() {
		if cnd.Val == 1 {
			return a
		}
		return b
	}
	if a == b {
		return a
	}
	if a.Sort.K == KBool {
		if a.IsTrue() && b.IsFalse() {
			return cnd
		}
		if a.IsFalse() && b.IsTrue() {
			return c.Not(cnd)
		}
		if a.IsTrue() {
			return c.Or(cnd, b)
		}
		if a.IsFalse() {
			return c.And(c.Not(cnd), b)
		}
		if b.IsTrue() {
			return c.Or(c.Not(cnd), a)
		}
		if b.IsFalse() {
			return c.And(cnd, a)
		}
	}
	return c.mk(&Term{Op: OpIte, Sort: a.Sort, Args: []*Term{cnd, a, b}})
}

func (c *Ctx) Eq(a, b *Term) *Term {
	if a.Sort != b.Sort {
		panic(fmt.Sprintf("smt.Eq: sort mismatch %v vs %v", a.Sort, b.Sort))
	}
	if a == b {
		return c.True
	}
	if a.IsConst() && b.IsConst() {
		return c.BoolC(a.Val == b.Val)
	}
	if a.Sort.K == KBool {
		if a.IsConst() {
			a, b = b, a
		}
		if b.IsTrue() {
			return a
		}
		if b.IsFalse() {
			return c.Not(a)
		}
	}
	if a.IsConst() { // constants on the right
		a, b = b, a
	}
	// ite(c, k1, k2) == k  with constants
	if b.IsConst() && a.Op == OpIte && a.Args[1].IsConst() && a.Args[2].IsConst() {
		e1 := a.Args[1].Val == b.Val
		e2 := a.Args[2].Val == b.Val
		switch {
		case e1 && e2:
			return c.True
		case e1:
			return a.Args[0]
		case e2:
			return c.Not(a.Args[0])
		default:
			return c.False
		}
	}
	// zext(x) == k
	if b.IsConst() && a.Op == OpZExt {
		iw := a.Args[0].Sort.W
		if b.Val&^mask(iw) != 0 {
			return c.False
		}
		return c.Eq(a.Args[0], c.Const(iw, b.Val))
	}
	if a.ID > b.ID && !b.IsConst() {
		a, b = b, a
	}
	return c.mk(&Term{Op: OpEq, Sort: Bool, Args: []*Term{a, b}})
}

func sext(v uint64, w int) int64 {
	if w < 64 && v&(1<<uint(w-1)) != 0 {
		v |= ^mask(w)
	}
	return int64(v)
}

// Bin builds a binary bit-vector operation (arithmetical / logical / comparison).
func (c *Ctx) Bin(op Op, a, b *Term) *Term {
	if a.Sort != b.Sort || a.Sort.K != KBV {
		panic(fmt.Sprintf("smt.Bin %v: sort mismatch %v vs %v", opName[op], a.Sort, b.Sort))
	}
	w := a.Sort.W
	rs := a.Sort
	switch op {
	case OpULt, OpULe, OpSLt, OpSLe:
		rs = Bool
	}
	if a.IsConst() && b.IsConst() {
		x, y := a.Val, b.Val
		sx, sy := sext(x, w), sext(y, w)
		switch op {
		case OpAdd:
			return c.Const(w, x+y)
		case OpSub:
			return c.Const(w, x-y)
		case OpMul:
			return c.Const(w, x*y)
		case OpUDiv:
			if y == 0 {
				return c.Const(w, mask(w))
			}
			return c.Const(w, x/y)
		case OpURem:
			if y == 0 {
				return c.Const(w, x)
			}
			return c.Const(w, x%y)
		case OpSDiv:
			if y == 0 {
				if sx >= 0 {
					return c.Const(w, mask(w))
				}
				return c.Const(w, 1)
			}
			if sy == -1 {
				return c.Const(w, uint64(-sx))
			}
			return c.Const(w, uint64(sx/sy))
		case OpSRem:
			if y == 0 {
				return c.Const(w, x)
			}
			if sy == -1 {
				return c.Const(w, 0)
			}
			return c.Const(w, uint64(sx%sy))
		case OpBAnd:
			return c.Const(w, x&y)
		case OpBOr:
			return c.Const(w, x|y)
		case OpBXor:
			return c.Const(w, x^y)
		case OpShl:
			if y >= uint64(w) {
				return c.Const(w, 0)
			}
			return c.Const(w, x<<y)
		case OpLShr:
			if y >= uint64(w) {
				return c.Const(w, 0)
			}
			return c.Const(w, x>>y)
		case OpAShr:
			if y >= uint64(w) {
				if sx < 0 {
					return c.Const(w, mask(w))
				}
				return c.Const(w, 0)
			}
			return c.Const(w, uint64(sx>>y))
		case OpULt:
			return c.BoolC(x < y)
		case OpULe:
			return c.BoolC(x <= y)
		case OpSLt:
			return c.BoolC(sx < sy)
		case OpSLe:
			return c.BoolC(sx <= sy)
		}
	}
	// local rewrites
	switch op {
	case OpAdd:
		if a.IsConst() {
			a, b = b, a
		}
		if b.IsConst() && b.Val == 0 {
			return a
		}
		// (x + k1) + k2
		if b.IsConst() && a.Op == OpAdd && a.Args[1].IsConst() {
			return c.Bin(OpAdd, a.Args[0], c.Const(w, a.Args[1].Val+b.Val))
		}
		// (x - k1) + k2  handled through Sub normalisation below
	case OpSub:
		if b.IsConst() {
			return c.Bin(OpAdd, a, c.Const(w, -b.Val))
		}
		if a == b {
			return c.Const(w, 0)
		}
		// (x + y) - x = y ; (x + y) - y = x
		if a.Op == OpAdd {
			if a.Args[0] == b {
				return a.Args[1]
			}
			if a.Args[1] == b {
				return a.Args[0]
			}
			// (x + k) - y where y = (x + k2)
			if b.Op == OpAdd && a.Args[0] == b.Args[0] && a.Args[1].IsConst() && b.Args[1].IsConst() {
				return c.Const(w, a.Args[1].Val-b.Args[1].Val)
			}
		}
		if b.Op == OpAdd && b.Args[0] == a && b.Args[1].IsConst() {
			return c.Const(w, -b.Args[1].Val)
		}
	case OpMul:
		if a.IsConst() {
			a, b = b, a
		}
		if b.IsConst() {
			if b.Val == 0 {
				return b
			}
			if b.Val == 1 {
				return a
			}
		}
	case OpBAnd:
		if a.IsConst() {
			a, b = b, a
		}
		if b.IsConst() {
			if b.Val == 0 {
				return b
			}
			if b.Val == mask(w) {
				return a
			}
			// zext(x) & k  where k covers x entirely
			if a.Op == OpZExt {
				iw := a.Args[0].Sort.W
				if b.Val&mask(iw) == mask(iw) {
					return a
				}
			}
		}
		if a == b {
			return a
		}
	case OpBOr:
		if a.IsConst() {
			a, b = b, a
		}
		if b.IsConst() {
			if b.Val == 0 {
				return a
			}
			if b.Val == mask(w) {
				return b
			}
		}
		if a == b {
			return a
		}
	case OpBXor:
		if a.IsConst() {
			a, b = b, a
		}
		if b.IsConst() && b.Val == 0 {
			return a
		}
		if a == b {
			return c.Const(w, 0)
		}
	case OpShl, OpLShr, OpAShr:
		if b.IsConst() && b.Val == 0 {
			return a
		}
		if b.IsConst() && b.Val >= uint64(w) && op != OpAShr {
			return c.Const(w, 0)
		}
		// lshr(zext(x), k) with k >= inner width -> 0
		if op == OpLShr && b.IsConst() && a.Op == OpZExt && b.Val >= uint64(a.Args[0].Sort.W) {
			return c.Const(w, 0)
		}
	case OpUDiv, OpSDiv:
		if b.IsConst() && b.Val == 1 {
			return a
		}
	case OpULt:
		if a == b {
			return c.False
		}
		if b.IsConst() && b.Val == 0 {
			return c.False
		}
		if a.IsConst() && a.Val == mask(w) {
			return c.False
		}
		if r := c.cmpRange(op, a, b); r != nil {
			return r
		}
	case OpULe:
		if a == b {
			return c.True
		}
		if a.IsConst() && a.Val == 0 {
			return c.True
		}
		if b.IsConst() && b.Val == mask(w) {
			return c.True
		}
		if r := c.cmpRange(op, a, b); r != nil {
			return r
		}
	case OpSLt:
		if a == b {
			return c.False
		}
		if r := c.cmpRange(op, a, b); r != nil {
			return r
		}
	case OpSLe:
		if a == b {
			return c.True
		}
		if r := c.cmpRange(op, a, b); r != nil {
			return r
		}
	}
	return c.mk(&Term{Op: op, Sort: rs, Args: []*Term{a, b}})
}

// urange returns a cheap syntactic unsigned range of t (inclusive), ok=false if unknown.
// URange exposes the syntactic range analysis.
func URange(t *Term) (lo, hi uint64, ok bool) { return urange(t) }

func urange(t *Term) (lo, hi uint64, ok bool) {
	switch t.Op {
	case OpConst:
		return t.Val, t.Val, true
	case OpZExt:
		iw := t.Args[0].Sort.W
		if l, h, ok := urange(t.Args[0]); ok {
			return l, h, true
		}
		return 0, mask(iw), true
	case OpBAnd:
		if t.Args[1].IsConst() {
			return 0, t.Args[1].Val, true
		}
	case OpIte:
		l1, h1, ok1 := urange(t.Args[1])
		l2, h2, ok2 := urange(t.Args[2])
		if ok1 && ok2 {
			if l2 < l1 {
				l1 = l2
			}
			if h2 > h1 {
				h1 = h2
			}
			return l1, h1, true
		}
	case OpAdd:
		l1, h1, ok1 := urange(t.Args[0])
		l2, h2, ok2 := urange(t.Args[1])
		if ok1 && ok2 {
			s, carry := bits.Add64(h1, h2, 0)
			if carry == 0 && s <= mask(t.Sort.W) {
				return l1 + l2, s, true
			}
		}
	case OpLShr:
		if t.Args[1].IsConst() && t.Args[1].Val < uint64(t.Sort.W) {
			return 0, mask(t.Sort.W) >> t.Args[1].Val, true
		}
	}
	return 0, 0, false
}

func (c *Ctx) cmpRange(op Op, a, b *Term) *Term {
	la, ha, ok1 := urange(a)
	lb, hb, ok2 := urange(b)
	if !ok1 || !ok2 {
		return nil
	}
	w := a.Sort.W
	top := uint64(1) << uint(w-1)
	if op == OpSLt || op == OpSLe {
		// only when both ranges are in the non-negative half
		if ha >= top || hb >= top {
			return nil
		}
	}
	switch op {
	case OpULt, OpSLt:
		if ha < lb {
			return c.True
		}
		if la >= hb {
			return c.False
		}
	case OpULe, OpSLe:
		if ha <= lb {
			return c.True
		}
		if la > hb {
			return c.False
		}
	}
	return nil
}

func (c *Ctx) Neg(a *Term) *Term {
	if a.IsConst() {
		return c.Const(a.Sort.W, -a.Val)
	}
	return c.mk(&Term{Op: OpNeg, Sort: a.Sort, Args: []*Term{a}})
}

func (c *Ctx) BNot(a *Term) *Term {
	if a.IsConst() {
		return c.Const(a.Sort.W, ^a.Val)
	}
	if a.Op == OpBNot {
		return a.Args[0]
	}
	return c.mk(&Term{Op: OpBNot, Sort: a.Sort, Args: []*Term{a}})
}

func (c *Ctx) Extract(hi, lo int, a *Term) *Term {
	w := hi - lo + 1
	if lo == 0 && w == a.Sort.W {
		return a
	}
	if a.IsConst() {
		return c.Const(w, a.Val>>uint(lo))
	}
	switch a.Op {
	case OpZExt:
		iw := a.Args[0].Sort.W
		if hi < iw {
			return c.Extract(hi, lo, a.Args[0])
		}
		if lo >= iw {
			return c.Const(w, 0)
		}
		if lo == 0 { // hi >= iw
			return c.ZExt(w-iw, a.Args[0])
		}
	case OpSExt:
		iw := a.Args[0].Sort.W
		if hi < iw {
			return c.Extract(hi, lo, a.Args[0])
		}
	case OpExtract:
		ilo := int(a.Val & 0xff)
		return c.Extract(hi+ilo, lo+ilo, a.Args[0])
	case OpConcat:
		lw := a.Args[1].Sort.W
		if hi < lw {
			return c.Extract(hi, lo, a.Args[1])
		}
		if lo >= lw {
			return c.Extract(hi-lw, lo-lw, a.Args[0])
		}
	case OpBAnd, OpBOr, OpBXor:
		// push extraction through bitwise ops when one side is constant (keeps masks simple)
		if a.Args[1].IsConst() {
			return c.Bin(a.Op, c.Extract(hi, lo, a.Args[0]), c.Extract(hi, lo, a.Args[1]))
		}
	case OpLShr:
		// extract(lshr(x,k)) -> extract of x at shifted position when in range
		if a.Args[1].IsConst() {
			k := int(a.Args[1].Val)
			if hi+k < a.Sort.W {
				return c.Extract(hi+k, lo+k, a.Args[0])
			}
		}
	case OpIte:
		if a.Args[1].IsConst() && a.Args[2].IsConst() {
			return c.Ite(a.Args[0], c.Extract(hi, lo, a.Args[1]), c.Extract(hi, lo, a.Args[2]))
		}
	}
	return c.mk(&Term{Op: OpExtract, Sort: BV(w), Args: []*Term{a}, Val: uint64(hi)<<8 | uint64(lo)})
}

func (c *Ctx) ZExt(n int, a *Term) *Term {
	if n == 0 {
		return a
	}
	if a.IsConst() {
		return c.Const(a.Sort.W+n, a.Val)
	}
	if a.Op == OpZExt {
		return c.ZExt(n+int(a.Val), a.Args[0])
	}
	return c.mk(&Term{Op: OpZExt, Sort: BV(a.Sort.W + n), Args: []*Term{a}, Val: uint64(n)})
}

func (c *Ctx) SExt(n int, a *Term) *Term {
	if n == 0 {
		return a
	}
	if a.IsConst() {
		return c.Const(a.Sort.W+n, uint64(sext(a.Val, a.Sort.W)))
	}
	if a.Op == OpZExt { // sign bit known zero
		return c.ZExt(n+int(a.Val), a.Args[0])
	}
	if a.Op == OpSExt {
		return c.SExt(n+int(a.Val), a.Args[0])
	}
	return c.mk(&Term{Op: OpSExt, Sort: BV(a.Sort.W + n), Args: []*Term{a}, Val: uint64(n)})
}

func (c *Ctx) Concat(hi, lo *Term) *Term {
	if hi.IsConst() && lo.IsConst() {
		return c.Const(hi.Sort.W+lo.Sort.W, hi.Val<<uint(lo.Sort.W)|lo.Val)
	}
	if hi.IsConst() && hi.Val == 0 {
		return c.ZExt(hi.Sort.W, lo)
	}
	return c.mk(&Term{Op: OpConcat, Sort: BV(hi.Sort.W + lo.Sort.W), Args: []*Term{hi, lo}})
}

// ---- arrays ----

func (c *Ctx) ConstArr(v uint64) *Term {
	return c.mk(&Term{Op: OpConstArr, Sort: Arr, Val: v & 0xff})
}

func (c *Ctx) Select(a, i *Term) *Term {
	if i.Sort != BV(64) || a.Sort.K != KArr {
		panic("smt.Select: bad sorts")
	}
	cur := a
	for {
		switch cur.Op {
		case OpStore:
			si := cur.Args[1]
			if si == i {
				return cur.Args[2]
			}
			if si.IsConst() && i.IsConst() { // distinct constants
				cur = cur.Args[0]
				continue
			}
			if c.provablyDistinct(si, i) {
				cur = cur.Args[0]
				continue
			}
		case OpConstArr:
			return c.Const(8, cur.Val)
		case OpCopy:
			doff, soff, n := cur.Args[2], cur.Args[3], cur.Args[4]
			if i.IsConst() && doff.IsConst() && n.IsConst() {
				if i.Val >= doff.Val && i.Val-doff.Val < n.Val {
					return c.Select(cur.Args[1], c.Bin(OpAdd, soff, c.Const(64, i.Val-doff.Val)))
				}
				cur = cur.Args[0]
				continue
			}
		}
		break
	}
	if !i.IsConst() {
		if t := c.tableSelect(cur, i); t != nil {
			return t
		}
	}
	return c.mk(&Term{Op: OpSelect, Sort: BV(8), Args: []*Term{cur, i}})
}

// tableSelect: a read at a symbolic index from a small constant lookup table (a chain
// of stores at distinct constant indices over a constant array) becomes an ite chain,
// which bit-blasts far better than array reasoning over the store chain.
func (c *Ctx) tableSelect(a, i *Term) *Term {
	type kv struct{ k, v *Term }
	var ents []kv
	seen := map[uint64]bool{}
	cur := a
	for cur.Op == OpStore {
		if !cur.Args[1].IsConst() || len(ents) > 256 {
			return nil
		}
		if !seen[cur.Args[1].Val] {
			seen[cur.Args[1].Val] = true
			ents = append(ents, kv{cur.Args[1], cur.Args[2]})
		}
		cur = cur.Args[0]
	}
	if cur.Op != OpConstArr || len(ents) == 0 {
		return nil
	}
	res := c.Const(8, cur.Val)
	for j := len(ents) - 1; j >= 0; j-- {
		res = c.Ite(c.Eq(i, ents[j].k), ents[j].v, res)
	}
	return res
}

// provablyDistinct: x+k1 vs x+k2 with k1!=k2, or x vs x+k (k!=0).
func (c *Ctx) provablyDistinct(a, b *Term) bool {
	base := func(t *Term) (*Term, uint64) {
		if t.Op == OpAdd && t.Args[1].IsConst() {
			return t.Args[0], t.Args[1].Val
		}
		return t, 0
	}
	ba, ka := base(a)
	bb, kb := base(b)
	return ba == bb && ka != kb
}

func (c *Ctx) Store(a, i, v *Term) *Term {
	if i.Sort != BV(64) || a.Sort.K != KArr || v.Sort != BV(8) {
		panic("smt.Store: bad sorts")
	}
	// overwrite of the same index on top
	if a.Op == OpStore && a.Args[1] == i {
		a = a.Args[0]
	}
	return c.mk(&Term{Op: OpStore, Sort: Arr, Args: []*Term{a, i, v}})
}

// Copy returns dst with [doff, doff+n) replaced by src[soff, soff+n).
func (c *Ctx) Copy(dst, src, doff, soff, n *Term) *Term {
	if n.IsConst() && n.Val == 0 {
		return dst
	}
	if n.IsConst() && n.Val <= 64 {
		// unroll; read all source bytes first (memmove semantics)
		vals := make([]*Term, n.Val)
		for k := uint64(0); k < n.Val; k++ {
			vals[k] = c.Select(src, c.Bin(OpAdd, soff, c.Const(64, k)))
		}
		out := dst
		for k := uint64(0); k < n.Val; k++ {
			out = c.Store(out, c.Bin(OpAdd, doff, c.Const(64, k)), vals[k])
		}
		return out
	}
	return c.mk(&Term{Op: OpCopy, Sort: Arr, Args: []*Term{dst, src, doff, soff, n}})
}

// CopyGuarded is the lambda-free encoding of a copy whose count n is symbolic but
// bounded by max (small): byte k is copied iff k < n.
func (c *Ctx) CopyGuarded(dst, src, doff, soff, n *Term, max int) *Term {
	vals := make([]*Term, max)
	for k := 0; k < max; k++ {
		vals[k] = c.Select(src, c.Bin(OpAdd, soff, c.Const(64, uint64(k))))
	}
	out := dst
	for k := 0; k < max; k++ {
		idx := c.Bin(OpAdd, doff, c.Const(64, uint64(k)))
		g := c.Bin(OpULt, c.Const(64, uint64(k)), n)
		out = c.Store(out, idx, c.Ite(g, vals[k], c.Select(out, idx)))
	}
	return out
}

// HasLambda reports whether the DAG of t contains an OpCopy node.
func HasLambda(ts ...*Term) bool {
	seen := map[int]bool{}
	var rec func(t *Term) bool
	rec = func(t *Term) bool {
		if seen[t.ID] {
			return false
		}
		seen[t.ID] = true
		if t.Op == OpCopy {
			return true
		}
		for _, a := range t.Args {
			if rec(a) {
				return true
			}
		}
		return false
	}
	for _, t := range ts {
		if rec(t) {
			return true
		}
	}
	return false
}
