package smt

import (
	"bufio"
	"os"
	"fmt"
	"io"
	"os/exec"
	"strconv"
	"strings"
	"time"
)

// Result of a check-sat.
type Result int

const (
	Unsat Result = iota
	Sat
	Unknown
)

func (r Result) String() string { return [...]string{"unsat", "sat", "unknown"}[r] }

// Solver drives one persistent solver process over stdin/stdout.
type Solver struct {
	Name    string
	cmd     *exec.Cmd
	in      io.WriteCloser
	w       *bufio.Writer
	out     *bufio.Reader
	defined []map[int]bool // per push level: term IDs already defined
	Queries int
	NSat, NUnsat, NUnknown int
	Errors  int
	Time    time.Duration
	LastErr string
	timeout int
	Log     io.Writer
	dead    bool
	argv    []string
}

// NewSolver starts a solver. kind: "z3-new", "z3", "cvc5".
func NewSolver(kind string, timeoutMs int) (*Solver, error) {
	var argv []string
	switch kind {
	case "z3-new":
		argv = []string{"z3-new", "-in"}
	case "z3":
		argv = []string{"z3", "-in"}
	case "cvc5":
		argv = []string{"cvc5", "--incremental", "--lang=smt2", fmt.Sprintf("--tlimit-per=%d", timeoutMs)}
	case "cvc5-int":
		argv = []string{"cvc5", "--incremental", "--lang=smt2", "--solve-bv-as-int=sum", fmt.Sprintf("--tlimit-per=%d", timeoutMs)}
	default:
		return nil, fmt.Errorf("unknown solver %q", kind)
	}
	s := &Solver{Name: kind, timeout: timeoutMs, argv: argv}
	if err := s.start(); err != nil {
		return nil, err
	}
	return s, nil
}

func (s *Solver) start() error {
	cmd := exec.Command(s.argv[0], s.argv[1:]...)
	in, err := cmd.StdinPipe()
	if err != nil {
		return err
	}
	out, err := cmd.StdoutPipe()
	if err != nil {
		return err
	}
	cmd.Stderr = cmd.Stdout
	if err := cmd.Start(); err != nil {
		return err
	}
	s.cmd, s.in, s.out = cmd, in, bufio.NewReaderSize(out, 1<<16)
	s.w = bufio.NewWriterSize(in, 1<<16)
	s.defined = []map[int]bool{{}}
	s.dead = false
	if d := os.Getenv("GOSYMX_SOLVERLOG"); d != "" && s.Log == nil {
		f, _ := os.Create(fmt.Sprintf("%s/solver_%d.smt2", d, cmd.Process.Pid))
		s.Log = f
	}
	if strings.HasPrefix(s.Name, "z3") {
		s.send(fmt.Sprintf("(set-option :timeout %d)", s.timeout))
	}
	if strings.HasPrefix(s.Name, "cvc5") {
		s.send("(set-logic ALL)")
	}
	s.send("(set-option :produce-models true)")
	s.sync()
	return nil
}

func (s *Solver) Close() {
	if s.cmd != nil && !s.dead {
		s.in.Close()
		s.cmd.Process.Kill()
		s.cmd.Wait()
		s.dead = true
	}
}

// Restart kills and restarts the process (used after a hang / to bound memory).
func (s *Solver) Restart() error {
	s.Close()
	return s.start()
}

func (s *Solver) send(cmd string) {
	if s.Log != nil {
		fmt.Fprintln(s.Log, cmd)
	}
	s.w.WriteString(cmd)
	s.w.WriteByte('\n')
}

// sync reads output lines until the sentinel; returns them.
func (s *Solver) sync() []string {
	s.send(`(echo "@@sync")`)
	s.w.Flush()
	var lines []string
	for {
		line, err := s.out.ReadString('\n')
		line = strings.TrimSpace(line)
		if line == "@@sync" || line == `"@@sync"` {
			return lines
		}
		if line != "" {
			lines = append(lines, line)
			if strings.Contains(line, "(error") {
				s.Errors++
				s.LastErr = line
			}
		}
		if err != nil {
			s.dead = true
			s.LastErr = "solver died: " + err.Error()
			s.Errors++
			return lines
		}
	}
}

func (s *Solver) Push() {
	s.send("(push 1)")
	s.defined = append(s.defined, map[int]bool{})
}

func (s *Solver) Pop() {
	if len(s.defined) <= 1 {
		return
	}
	s.send("(pop 1)")
	s.defined = s.defined[:len(s.defined)-1]
}

func (s *Solver) Level() int { return len(s.defined) - 1 }

func (s *Solver) isDefined(id int) bool {
	for _, m := range s.defined {
		if m[id] {
			return true
		}
	}
	return false
}

func tname(t *Term) string {
	switch t.Op {
	case OpVar:
		return t.Name
	case OpConst:
		if t.Sort.K == KBool {
			if t.Val == 1 {
				return "true"
			}
			return "false"
		}
		if t.Sort.W%4 == 0 {
			return fmt.Sprintf("#x%0*x", t.Sort.W/4, t.Val)
		}
		return fmt.Sprintf("#b%0*b", t.Sort.W, t.Val)
	}
	return "t" + strconv.Itoa(t.ID)
}

// define emits declarations/definitions for the DAG under t (at the current level).
func (s *Solver) define(t *Term) {
	if t.Op == OpConst || s.isDefined(t.ID) {
		return
	}
	// iterative post-order to avoid deep recursion on long store chains
	type fr struct {
		t *Term
		i int
	}
	st := []fr{{t, 0}}
	cur := s.defined[len(s.defined)-1]
	for len(st) > 0 {
		f := &st[len(st)-1]
		if f.i < len(f.t.Args) {
			a := f.t.Args[f.i]
			f.i++
			if a.Op != OpConst && !s.isDefined(a.ID) {
				st = append(st, fr{a, 0})
			}
			continue
		}
		x := f.t
		st = st[:len(st)-1]
		if s.isDefined(x.ID) {
			continue
		}
		cur[x.ID] = true
		if x.Op == OpVar {
			s.send(fmt.Sprintf("(declare-const %s %s)", x.Name, x.Sort))
			continue
		}
		s.send(fmt.Sprintf("(define-fun %s () %s %s)", tname(x), x.Sort, body(x)))
	}
}

func body(t *Term) string {
	switch t.Op {
	case OpExtract:
		return fmt.Sprintf("((_ extract %d %d) %s)", t.Val>>8, t.Val&0xff, tname(t.Args[0]))
	case OpZExt:
		return fmt.Sprintf("((_ zero_extend %d) %s)", t.Val, tname(t.Args[0]))
	case OpSExt:
		return fmt.Sprintf("((_ sign_extend %d) %s)", t.Val, tname(t.Args[0]))
	case OpConstArr:
		return fmt.Sprintf("((as const (Array (_ BitVec 64) (_ BitVec 8))) #x%02x)", t.Val)
	case OpCopy:
		d, sr, doff, soff, n := tname(t.Args[0]), tname(t.Args[1]), tname(t.Args[2]), tname(t.Args[3]), tname(t.Args[4])
		return fmt.Sprintf("(lambda ((i (_ BitVec 64))) (ite (bvult (bvsub i %s) %s) (select %s (bvadd (bvsub i %s) %s)) (select %s i)))",
			doff, n, sr, doff, soff, d)
	}
	var sb strings.Builder
	sb.WriteByte('(')
	sb.WriteString(opName[t.Op])
	for _, a := range t.Args {
		sb.WriteByte(' ')
		sb.WriteString(tname(a))
	}
	sb.WriteByte(')')
	return sb.String()
}

// Assert adds t at the current level.
func (s *Solver) Assert(t *Term) {
	s.define(t)
	s.send(fmt.Sprintf("(assert %s)", tname(t)))
}

// Check runs check-sat at the current level.
func (s *Solver) Check() Result {
	if s.dead {
		s.NUnknown++
		return Unknown
	}
	t0 := time.Now()
	errs := s.Errors
	s.send("(check-sat)")
	lines := s.sync()
	s.Time += time.Since(t0)
	s.Queries++
	res := Unknown
	for _, l := range lines {
		switch l {
		case "sat":
			res = Sat
		case "unsat":
			res = Unsat
		case "unknown", "timeout":
			res = Unknown
		}
	}
	if s.Errors != errs { // any error line makes the answer inconclusive
		res = Unknown
	}
	switch res {
	case Sat:
		s.NSat++
	case Unsat:
		s.NUnsat++
	default:
		s.NUnknown++
	}
	return res
}

// Solve decides the conjunction of ts from a clean solver state ((reset), so that
// z3 uses its non-incremental tactic pipeline, which is an order of magnitude
// faster on these 64-bit queries than push/pop mode).  The model stays
// available to Values until the next Solve.
func (s *Solver) Solve(ts []*Term) Result {
	if s.dead {
		s.NUnknown++
		return Unknown
	}
	if f, ok := s.Log.(*os.File); ok {
		if os.Getenv("GOSYMX_SOLVERLOG_FULL") == "" {
			f.Truncate(0)
			f.Seek(0, 0)
		}
	}
	s.send("(reset)")
	s.defined = []map[int]bool{{}}
	if strings.HasPrefix(s.Name, "z3") {
		s.send(fmt.Sprintf("(set-option :timeout %d)", s.timeout))
	}
	if strings.HasPrefix(s.Name, "cvc5") {
		s.send("(set-logic ALL)")
	}
	s.send("(set-option :produce-models true)")
	for _, t := range ts {
		s.Assert(t)
	}
	return s.Check()
}

// CheckWith pushes, asserts extra, checks, and pops.
func (s *Solver) CheckWith(extra ...*Term) Result {
	s.Push()
	for _, e := range extra {
		s.Assert(e)
	}
	r := s.Check()
	s.Pop()
	return r
}

// Values evaluates terms in the current model (call right after a Sat Check, before pop).
// Returns uint64 values (bool as 0/1); ok=false on parse problems.
func (s *Solver) Values(ts []*Term) ([]uint64, bool) {
	if len(ts) == 0 {
		return nil, true
	}
	out := make([]uint64, len(ts))
	const chunk = 200
	for base := 0; base < len(ts); base += chunk {
		end := base + chunk
		if end > len(ts) {
			end = len(ts)
		}
		var sb strings.Builder
		sb.WriteString("(get-value (")
		for _, t := range ts[base:end] {
			s.define(t)
			sb.WriteString(tname(t))
			sb.WriteByte(' ')
		}
		sb.WriteString("))")
		errs := s.Errors
		s.send(sb.String())
		lines := s.sync()
		if s.Errors != errs {
			return nil, false
		}
		vals := parseValues(strings.Join(lines, " "))
		if len(vals) != end-base {
			return nil, false
		}
		copy(out[base:end], vals)
	}
	return out, true
}

// parseValues extracts the value of each (term value) pair in a get-value answer.
func parseValues(s string) []uint64 {
	// tokenise into s-expressions: outer list of pairs
	toks := tokenize(s)
	pos := 0
	var parse func() any
	parse = func() any {
		if pos >= len(toks) {
			return nil
		}
		t := toks[pos]
		pos++
		if t == "(" {
			var l []any
			for pos < len(toks) && toks[pos] != ")" {
				l = append(l, parse())
			}
			pos++
			return l
		}
		return t
	}
	root, _ := parse().([]any)
	var out []uint64
	for _, p := range root {
		pair, ok := p.([]any)
		if !ok || len(pair) != 2 {
			return nil
		}
		v, ok := evalValue(pair[1])
		if !ok {
			return nil
		}
		out = append(out, v)
	}
	return out
}

func evalValue(v any) (uint64, bool) {
	switch x := v.(type) {
	case string:
		switch {
		case x == "true":
			return 1, true
		case x == "false":
			return 0, true
		case strings.HasPrefix(x, "#x"):
			n, err := strconv.ParseUint(x[2:], 16, 64)
			return n, err == nil
		case strings.HasPrefix(x, "#b"):
			n, err := strconv.ParseUint(x[2:], 2, 64)
			return n, err == nil
		}
	case []any:
		// (_ bvN w)
		if len(x) == 3 {
			if a, ok := x[0].(string); ok && a == "_" {
				if b, ok := x[1].(string); ok && strings.HasPrefix(b, "bv") {
					n, err := strconv.ParseUint(b[2:], 10, 64)
					return n, err == nil
				}
			}
		}
	}
	return 0, false
}

func tokenize(s string) []string {
	var toks []string
	i := 0
	for i < len(s) {
		ch := s[i]
		switch {
		case ch == '(' || ch == ')':
			toks = append(toks, string(ch))
			i++
		case ch == ' ' || ch == '\t' || ch == '\n' || ch == '\r':
			i++
		case ch == '|':
			j := i + 1
			for j < len(s) && s[j] != '|' {
				j++
			}
			toks = append(toks, s[i:j+1])
			i = j + 1
		default:
			j := i
			for j < len(s) && !strings.ContainsRune("() \t\n\r", rune(s[j])) {
				j++
			}
			toks = append(toks, s[i:j])
			i = j
		}
	}
	return toks
}

// ResetScopes pops back to level 0.
func (s *Solver) ResetScopes() {
	for s.Level() > 0 {
		s.Pop()
	}
}

// Script renders a standalone SMT-LIB script asserting ts (used to hand a query to another solver).
func Script(ts []*Term, logic string) string {
	var sb strings.Builder
	if logic != "" {
		fmt.Fprintf(&sb, "(set-logic %s)\n", logic)
	}
	seen := map[int]bool{}
	var rec func(t *Term)
	rec = func(t *Term) {
		if t.Op == OpConst || seen[t.ID] {
			return
		}
		seen[t.ID] = true
		for _, a := range t.Args {
			rec(a)
		}
		if t.Op == OpVar {
			fmt.Fprintf(&sb, "(declare-const %s %s)\n", t.Name, t.Sort)
		} else {
			fmt.Fprintf(&sb, "(define-fun %s () %s %s)\n", tname(t), t.Sort, body(t))
		}
	}
	for _, t := range ts {
		rec(t)
		fmt.Fprintf(&sb, "(assert %s)\n", tname(t))
	}
	sb.WriteString("(check-sat)\n")
	return sb.String()
}
