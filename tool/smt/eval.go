package smt

// Model is a concrete assignment to input variables, keyed by variable name so it
// can be carried across hash-consing contexts.
type Model struct {
	Scalars map[string]uint64
	Arrays  map[string][]byte // known prefix of each array variable
}

func NewModel() *Model {
	return &Model{Scalars: map[string]uint64{}, Arrays: map[string][]byte{}}
}

func (m *Model) Clone() *Model {
	n := NewModel()
	for k, v := range m.Scalars {
		n.Scalars[k] = v
	}
	for k, v := range m.Arrays {
		n.Arrays[k] = v
	}
	return n
}

type arrFn func(idx uint64) (byte, bool)

// Evaluator evaluates terms under a model with memoisation.
type Evaluator struct {
	M    *Model
	memo map[int]uint64
	bad  map[int]bool
	arrs map[int]arrFn
}

func NewEvaluator(m *Model) *Evaluator {
	return &Evaluator{M: m, memo: map[int]uint64{}, bad: map[int]bool{}, arrs: map[int]arrFn{}}
}

func (e *Evaluator) arr(t *Term) arrFn {
	if f, ok := e.arrs[t.ID]; ok {
		return f
	}
	var f arrFn
	switch t.Op {
	case OpVar:
		pre, known := e.M.Arrays[t.Name]
		f = func(i uint64) (byte, bool) {
			if !known {
				return 0, true // array variable not yet constrained
			}
			if i < uint64(len(pre)) {
				return pre[i], true
			}
			return 0, false
		}
	case OpConstArr:
		v := byte(t.Val)
		f = func(uint64) (byte, bool) { return v, true }
	case OpStore:
		base := e.arr(t.Args[0])
		iv, ok1 := e.Eval(t.Args[1])
		vv, ok2 := e.Eval(t.Args[2])
		f = func(i uint64) (byte, bool) {
			if !ok1 {
				return 0, false
			}
			if i == iv {
				return byte(vv), ok2
			}
			return base(i)
		}
	case OpCopy:
		dst, src := e.arr(t.Args[0]), e.arr(t.Args[1])
		doff, ok1 := e.Eval(t.Args[2])
		soff, ok2 := e.Eval(t.Args[3])
		n, ok3 := e.Eval(t.Args[4])
		f = func(i uint64) (byte, bool) {
			if !ok1 || !ok2 || !ok3 {
				return 0, false
			}
			if i-doff < n {
				return src(i - doff + soff)
			}
			return dst(i)
		}
	case OpIte:
		c, ok := e.Eval(t.Args[0])
		if !ok {
			f = func(uint64) (byte, bool) { return 0, false }
		} else if c == 1 {
			f = e.arr(t.Args[1])
		} else {
			f = e.arr(t.Args[2])
		}
	default:
		f = func(uint64) (byte, bool) { return 0, false }
	}
	e.arrs[t.ID] = f
	return f
}

// Eval returns the value of a Bool/BV term under the model; ok=false when it
// depends on something the model does not define.
func (e *Evaluator) Eval(t *Term) (uint64, bool) {
	if t.Op == OpConst {
		return t.Val, true
	}
	if v, ok := e.memo[t.ID]; ok {
		return v, true
	}
	if e.bad[t.ID] {
		return 0, false
	}
	v, ok := e.eval1(t)
	if ok {
		e.memo[t.ID] = v
	} else {
		e.bad[t.ID] = true
	}
	return v, ok
}

func (e *Evaluator) eval1(t *Term) (uint64, bool) {
	w := t.Sort.W
	switch t.Op {
	case OpVar:
		// a variable the model does not mention is unconstrained so far: 0 is as good as any
		return e.M.Scalars[t.Name], true
	case OpNot:
		a, ok := e.Eval(t.Args[0])
		return a ^ 1, ok
	case OpAnd:
		unknown := false
		for _, x := range t.Args {
			a, ok := e.Eval(x)
			if !ok {
				unknown = true
				continue
			}
			if a == 0 {
				return 0, true
			}
		}
		return 1, !unknown
	case OpOr:
		unknown := false
		for _, x := range t.Args {
			a, ok := e.Eval(x)
			if !ok {
				unknown = true
				continue
			}
			if a == 1 {
				return 1, true
			}
		}
		return 0, !unknown
	case OpIte:
		c, ok := e.Eval(t.Args[0])
		if !ok {
			return 0, false
		}
		if c == 1 {
			return e.Eval(t.Args[1])
		}
		return e.Eval(t.Args[2])
	case OpSelect:
		i, ok := e.Eval(t.Args[1])
		if !ok {
			return 0, false
		}
		b, ok := e.arr(t.Args[0])(i)
		return uint64(b), ok
	case OpEq:
		if t.Args[0].Sort.K == KArr {
			return 0, false
		}
		a, ok1 := e.Eval(t.Args[0])
		b, ok2 := e.Eval(t.Args[1])
		if !ok1 || !ok2 {
			return 0, false
		}
		if a == b {
			return 1, true
		}
		return 0, true
	case OpNeg:
		a, ok := e.Eval(t.Args[0])
		return (-a) & mask(w), ok
	case OpBNot:
		a, ok := e.Eval(t.Args[0])
		return (^a) & mask(w), ok
	case OpExtract:
		a, ok := e.Eval(t.Args[0])
		lo := uint(t.Val & 0xff)
		return (a >> lo) & mask(w), ok
	case OpZExt:
		return e.Eval(t.Args[0])
	case OpSExt:
		a, ok := e.Eval(t.Args[0])
		return uint64(sext(a, t.Args[0].Sort.W)) & mask(w), ok
	case OpConcat:
		a, ok1 := e.Eval(t.Args[0])
		b, ok2 := e.Eval(t.Args[1])
		return (a<<uint(t.Args[1].Sort.W) | b) & mask(w), ok1 && ok2
	}
	if len(t.Args) == 2 {
		a, ok1 := e.Eval(t.Args[0])
		b, ok2 := e.Eval(t.Args[1])
		if !ok1 || !ok2 {
			return 0, false
		}
		aw := t.Args[0].Sort.W
		return foldBin(t.Op, aw, a, b), true
	}
	return 0, false
}

func b2u(b bool) uint64 {
	if b {
		return 1
	}
	return 0
}

// foldBin computes a binary BV operation on constants (same semantics as Ctx.Bin's folding).
func foldBin(op Op, w int, x, y uint64) uint64 {
	sx, sy := sext(x, w), sext(y, w)
	m := mask(w)
	switch op {
	case OpAdd:
		return (x + y) & m
	case OpSub:
		return (x - y) & m
	case OpMul:
		return (x * y) & m
	case OpUDiv:
		if y == 0 {
			return m
		}
		return x / y
	case OpURem:
		if y == 0 {
			return x
		}
		return x % y
	case OpSDiv:
		if y == 0 {
			if sx >= 0 {
				return m
			}
			return 1
		}
		if sy == -1 {
			return uint64(-sx) & m
		}
		return uint64(sx/sy) & m
	case OpSRem:
		if y == 0 {
			return x
		}
		if sy == -1 {
			return 0
		}
		return uint64(sx%sy) & m
	case OpBAnd:
		return x & y
	case OpBOr:
		return x | y
	case OpBXor:
		return x ^ y
	case OpShl:
		if y >= uint64(w) {
			return 0
		}
		return (x << y) & m
	case OpLShr:
		if y >= uint64(w) {
			return 0
		}
		return x >> y
	case OpAShr:
		if y >= uint64(w) {
			if sx < 0 {
				return m
			}
			return 0
		}
		return uint64(sx>>y) & m
	case OpULt:
		return b2u(x < y)
	case OpULe:
		return b2u(x <= y)
	case OpSLt:
		return b2u(sx < sy)
	case OpSLe:
		return b2u(sx <= sy)
	}
	panic("foldBin: unexpected op")
}
