// gosymx: symbolic execution of Go SSA (from /repo's current source + harness
// overlay) with an SMT solver deciding every branch and assertion.
package main

import (
	"encoding/json"
	"flag"
	"fmt"
	"go/ast"
	"os"
	"path/filepath"
	"regexp"
	"sort"
	"strings"
	"time"

	"golang.org/x/tools/go/packages"
	"golang.org/x/tools/go/ssa"
	"golang.org/x/tools/go/ssa/ssautil"

	"gosymx/sym"
)

var (
	repoDir    = flag.String("repo", "/repo", "repository under test")
	harnessDir = flag.String("harness", "/verif/harness", "harness sources (overlay)")
	prop       = flag.String("prop", "", "property id (selects VerifH_<prop>_* harnesses)")
	runRe      = flag.String("run", "", "regexp on harness names")
	tier       = flag.String("tier", "quick", "quick|thorough")
	outFile    = flag.String("out", "", "result JSON (machine readable, consumed by the check front end)")
	workers    = flag.Int("workers", 16, "parallel workers")
	solver     = flag.String("solver", "z3-new", "z3-new|z3|cvc5")
	timeoutMs  = flag.Int("timeout", 0, "per-query solver timeout in ms")
	unwind     = flag.Int("unwind", 0, "loop unwinding bound per activation")
	maxPaths   = flag.Int("maxpaths", 0, "stop a harness after this many paths (0 = no limit)")
	budgetS    = flag.Int("budget", 0, "wall-clock budget per harness in seconds (0 = none)")
	verbose    = flag.Bool("v", false, "verbose")
	oneShot    = flag.Bool("oneshot", false, "solve every query from a clean solver state with constraint slicing instead of push/pop")
	noGuide    = flag.Bool("noguide", false, "disable model-guided branching (always query both sides)")
	nSamples   = flag.Int("samples", 6, "complete paths per harness exported with predicted observations (for native validation)")
	progress   = flag.Bool("progress", false, "print progress every 10s")
	noMerge    = flag.Bool("nomerge", false, "do not merge short-circuit conditions into ite terms")
	noLambda   = flag.Bool("nolambda", false, "avoid array lambdas where a bounded unrolling exists")
	mapOrder   = flag.String("maporder", "insertion", "map iteration order: insertion|reverse")
	replayJSON = flag.String("concrete", "", "re-run one harness concretely with the inputs of this failure JSON")
)

const modPath = "github.com/zishang520/engine.io/v2"

type HarnessResult struct {
	Name        string            `json:"name"`
	Pkg         string            `json:"pkg"`
	Paths       int               `json:"paths"`
	Outcomes    map[string]int    `json:"outcomes"`
	Steps       int64             `json:"steps"`
	Failures    []sym.Failure     `json:"failures"`
	Unknowns    int               `json:"unknowns"`
	Unwinds     map[string]int    `json:"unwinds"`
	Unsupported map[string]int    `json:"unsupported"`
	Limits      map[string]int    `json:"limits"`
	Sites       map[string]int    `json:"assert_sites"`
	AssertSat   int               `json:"assert_sat"`
	AssertUnsat int               `json:"assert_unsat"`
	AssertUnk   int               `json:"assert_unknown"`
	Queries     int               `json:"queries"`
	QSat        int               `json:"q_sat"`
	QUnsat      int               `json:"q_unsat"`
	QUnknown    int               `json:"q_unknown"`
	SolverErrs  int               `json:"solver_errors"`
	SolverS     float64           `json:"solver_s"`
	WallS       float64           `json:"wall_s"`
	EndReached  int               `json:"end_reached"`
	Rescues     int               `json:"second_solver_rescues"`
	Fns         map[string]int    `json:"functions"`
	Models      map[string]int    `json:"models"`
	Samples     []sym.Sample      `json:"samples"`
	Exhaustive  bool              `json:"exhaustive"`
	Inconclusive []string         `json:"inconclusive"`
}

type RunResult struct {
	Prop      string          `json:"prop"`
	Tier      string          `json:"tier"`
	LoadS     float64         `json:"load_s"`
	LoadError string          `json:"load_error,omitempty"`
	Harnesses []HarnessResult `json:"harnesses"`
	Solver    string          `json:"solver"`
	Bounds    map[string]int  `json:"bounds"`
}

func main() {
	flag.Parse()
	t0 := time.Now()
	res := RunResult{Prop: *prop, Tier: *tier, Solver: *solver}
	prog, pkgs, hmodels, err := load()
	res.LoadS = time.Since(t0).Seconds()
	if err != nil {
		res.LoadError = err.Error()
		fmt.Printf("INCONCLUSIVE reason=typecheck %v\n", err)
		writeOut(res)
		return
	}
	cfg := sym.Config{NSamples: *nSamples, FastTimeoutMs: 1500, Unwind: 64, MaxDecisions: 4000, MaxSteps: 20_000_000, TimeoutMs: 10000, Workers: *workers,
		Solver: *solver, NoLambda: *noLambda, MapOrder: *mapOrder, Progress: *verbose || *progress, OneShot: *oneShot, NoModelGuide: *noGuide, NoMerge: *noMerge}
	if *tier == "thorough" {
		cfg.Unwind, cfg.TimeoutMs, cfg.MaxDecisions = 256, 60000, 20000
		cfg.Tier = 1
	}
	if *unwind > 0 {
		cfg.Unwind = *unwind
	}
	if *timeoutMs > 0 {
		cfg.TimeoutMs = *timeoutMs
	}
	cfg.MaxPaths = *maxPaths
	res.Bounds = map[string]int{"unwind": cfg.Unwind, "solver_timeout_ms": cfg.TimeoutMs, "max_decisions_per_path": cfg.MaxDecisions, "max_steps_per_path": cfg.MaxSteps}

	var re *regexp.Regexp
	if *runRe != "" {
		re = regexp.MustCompile(*runRe)
	}
	type hfn struct {
		fn  *ssa.Function
		pkg string
	}
	var hs []hfn
	for _, p := range pkgs {
		sp := prog.Package(p.Types)
		if sp == nil {
			continue
		}
		var names []string
		for n := range sp.Members {
			names = append(names, n)
		}
		sort.Strings(names)
		for _, n := range names {
			f, ok := sp.Members[n].(*ssa.Function)
			if !ok {
				continue
			}
			thor := strings.HasPrefix(n, "VerifHT_")
			if !strings.HasPrefix(n, "VerifH_") && !thor {
				continue
			}
			if thor && *tier != "thorough" {
				continue
			}
			rest := strings.TrimPrefix(strings.TrimPrefix(n, "VerifHT_"), "VerifH_")
			if *prop != "" && !strings.HasPrefix(rest, *prop+"_") {
				continue
			}
			if re != nil && !re.MatchString(n) {
				continue
			}
			hs = append(hs, hfn{f, p.PkgPath})
		}
	}
	if len(hs) == 0 {
		fmt.Printf("INCONCLUSIVE reason=no-harness prop=%s\n", *prop)
	}
	for _, h := range hs {
		c := cfg
		if *budgetS > 0 {
			c.Deadline = time.Now().Add(time.Duration(*budgetS) * time.Second)
		}
		e := sym.NewEngine(prog, c)
		e.HarnessModels = hmodels
		ht0 := time.Now()
		// watchdog: a harness that neither finishes nor reaches its own deadline checks (an
		// interpreter-level stall) must not hang the check: give up on the whole run, keeping
		// what has been decided so far, and say so
		stuck := make(chan struct{})
		if *budgetS > 0 {
			go func(name, pkg string) {
				select {
				case <-stuck:
				case <-time.After(time.Duration(2*(*budgetS)+120) * time.Second):
					fmt.Printf("INCONCLUSIVE harness=%s reason=engine-stuck (no progress %ds after its budget)\n", name, *budgetS+120)
					res.Harnesses = append(res.Harnesses, HarnessResult{Name: name, Pkg: pkg, Paths: 0, Inconclusive: []string{"engine-stuck: the interpreter stalled on this harness; nothing is claimed for it"}})
					writeOut(res)
					os.Exit(0)
				}
			}(h.fn.Name(), h.pkg)
		}
		err := e.Run(h.fn)
		close(stuck)
		if err != nil {
			fmt.Printf("INCONCLUSIVE harness=%s reason=engine %v\n", h.fn.Name(), err)
			continue
		}
		hr := summarize(e, h.fn.Name(), h.pkg, time.Since(ht0).Seconds())
		res.Harnesses = append(res.Harnesses, hr)
		report(hr)
	}
	writeOut(res)
}

func summarize(e *sym.Engine, name, pkg string, wall float64) HarnessResult {
	hr := HarnessResult{Name: name, Pkg: pkg, Paths: e.Paths, Outcomes: e.Outcomes, Steps: e.Steps, Failures: e.Failures,
		Unknowns: e.Unknowns, Unwinds: e.Unwinds, Unsupported: e.Unsupported, Limits: e.LimitHits, Sites: e.Sites,
		AssertSat: e.AssertSat, AssertUnsat: e.AssertUnsat, AssertUnk: e.AssertUnk, WallS: wall, EndReached: e.EndReached,
		Fns: e.Fns, Models: e.ModelsUsed, Samples: e.Samples}
	for _, s := range e.SolverStats {
		hr.Queries += s.Queries
		hr.QSat += s.Sat
		hr.QUnsat += s.Unsat
		hr.QUnknown += s.Unknown
		hr.SolverErrs += s.Errors
		hr.SolverS += s.Seconds
	}
	if e.Unknowns > 0 {
		hr.Inconclusive = append(hr.Inconclusive, fmt.Sprintf("solver-unknown x%d", e.Unknowns))
	}
	hr.Rescues = e.Rescues
	for k, n := range e.Unwinds {
		hr.Inconclusive = append(hr.Inconclusive, fmt.Sprintf("unwind %s x%d", k, n))
	}
	for k, n := range e.Unsupported {
		hr.Inconclusive = append(hr.Inconclusive, fmt.Sprintf("unsupported %s x%d", k, n))
	}
	for k, n := range e.LimitHits {
		hr.Inconclusive = append(hr.Inconclusive, fmt.Sprintf("limit %s x%d", k, n))
	}
	if e.EndReached == 0 {
		hr.Inconclusive = append(hr.Inconclusive, "vacuous: no path reached the end of the harness")
	}
	sort.Strings(hr.Inconclusive)
	hr.Exhaustive = len(hr.Inconclusive) == 0
	return hr
}

func report(hr HarnessResult) {
	status := "OK"
	if len(hr.Failures) > 0 {
		status = "FAIL"
	} else if !hr.Exhaustive {
		status = "INCONCLUSIVE"
	}
	fmt.Printf("%s harness=%s paths=%d outcomes=%v queries=%d (sat %d unsat %d unknown %d) asserts(sat %d unsat %d) solver=%.1fs wall=%.1fs\n",
		status, hr.Name, hr.Paths, hr.Outcomes, hr.Queries, hr.QSat, hr.QUnsat, hr.QUnknown, hr.AssertSat, hr.AssertUnsat, hr.SolverS, hr.WallS)
	for _, s := range hr.Inconclusive {
		fmt.Printf("  INCONCLUSIVE harness=%s reason=%s\n", hr.Name, s)
	}
	seen := map[string]int{}
	for _, f := range hr.Failures {
		k := f.Kind + "|" + f.Msg + "|" + f.Site
		seen[k]++
		if seen[k] > 1 && !*verbose {
			continue
		}
		fmt.Printf("  FAILURE harness=%s kind=%s msg=%q site=%s inputs=%s\n", hr.Name, f.Kind, f.Msg, f.Site, shortInputs(f.Inputs))
		for _, o := range f.Observed {
			fmt.Printf("      observed %s=%s\n", o.Name, o.Val)
		}
		if *verbose {
			for _, s := range f.Stack {
				fmt.Printf("      at %s\n", s)
			}
		}
	}
	for k, n := range seen {
		if n > 1 {
			fmt.Printf("  (%d failures of %s)\n", n, k)
		}
	}
}

func shortInputs(in []sym.InputValue) string {
	var sb strings.Builder
	for i, v := range in {
		if i > 0 {
			sb.WriteByte(' ')
		}
		switch v.Kind {
		case "bytes", "string":
			h := v.Hex
			if len(h) > 40 {
				h = h[:40] + ".."
			}
			fmt.Fprintf(&sb, "%s[len=%d %s]", v.Kind, v.Len, h)
		default:
			fmt.Fprintf(&sb, "%s=%d", v.Kind, v.Int)
		}
	}
	s := sb.String()
	if len(s) > 400 {
		s = s[:400] + "..."
	}
	return s
}

func writeOut(res RunResult) {
	if *outFile == "" {
		return
	}
	b, _ := json.MarshalIndent(res, "", " ")
	os.WriteFile(*outFile, b, 0o644)
}

// overlay maps harness files into the repository tree (in memory only).
func buildOverlay() (map[string][]byte, []string, error) {
	ov := map[string][]byte{}
	pkgDirs := map[string]bool{}
	allDirs := map[string]bool{}
	type ovFile struct {
		path, dir string
		internal  bool
		data      []byte
	}
	var files []ovFile
	err := filepath.Walk(*harnessDir, func(path string, info os.FileInfo, err error) error {
		if err != nil || info.IsDir() || !strings.HasSuffix(path, ".go") {
			return err
		}
		if strings.HasSuffix(path, "_test.go") || strings.HasSuffix(path, "_native.go") {
			return nil
		}
		rel, _ := filepath.Rel(*harnessDir, path)
		dir := filepath.Dir(rel)
		b, err := os.ReadFile(path)
		if err != nil {
			return err
		}
		name := filepath.Base(rel)
		if !strings.HasPrefix(dir, "internal/") {
			name = "zz_verif_" + name
			allDirs["./"+dir] = true
			// a package is loaded only if it holds a harness of the selected property or a
			// harness-side model: an edit of /repo that breaks the harness of another
			// package must not make this property inconclusive
			txt := string(b)
			if *prop == "" || strings.Contains(txt, "VerifH_"+*prop+"_") || strings.Contains(txt, "VerifHT_"+*prop+"_") {
				pkgDirs["./"+dir] = true
			}
		}
		files = append(files, ovFile{filepath.Join(*repoDir, dir, name), "./" + dir, strings.HasPrefix(dir, "internal/"), b})
		return nil
	})
	for _, f := range files {
		if f.internal || pkgDirs[f.dir] {
			ov[f.path] = f.data
		}
	}
	var dirs []string
	for d := range pkgDirs {
		dirs = append(dirs, d)
	}
	sort.Strings(dirs)
	return ov, dirs, err
}

func load() (*ssa.Program, []*packages.Package, map[string]*ssa.Function, error) {
	ov, dirs, err := buildOverlay()
	if err != nil {
		return nil, nil, nil, err
	}
	cfg := &packages.Config{
		Mode:    packages.LoadAllSyntax,
		Dir:     *repoDir,
		Overlay: ov,
		BuildFlags: []string{"-tags=verif"},
		Env:     append(os.Environ(), "GOFLAGS=-mod=mod", "GOPROXY=off"),
	}
	initial, err := packages.Load(cfg, dirs...)
	if err != nil {
		return nil, nil, nil, err
	}
	var errs []string
	packages.Visit(initial, nil, func(p *packages.Package) {
		for _, e := range p.Errors {
			errs = append(errs, e.Error())
		}
	})
	if len(errs) > 0 {
		if len(errs) > 8 {
			errs = errs[:8]
		}
		return nil, nil, nil, fmt.Errorf("%s", strings.Join(errs, "; "))
	}
	prog, _ := ssautil.AllPackages(initial, ssa.InstantiateGenerics)
	prog.Build()
	// harness-side models: //verif:model <callee full name>
	hm := map[string]*ssa.Function{}
	var withModels []*packages.Package
	packages.Visit(initial, nil, func(p *packages.Package) {
		if strings.HasPrefix(p.PkgPath, modPath) {
			withModels = append(withModels, p)
		}
	})
	for _, p := range withModels {
		sp := prog.Package(p.Types)
		if sp == nil {
			continue
		}
		for _, f := range p.Syntax {
			for _, d := range f.Decls {
				fd, ok := d.(*ast.FuncDecl)
				if !ok || fd.Doc == nil || fd.Recv != nil {
					continue
				}
				for _, c := range fd.Doc.List {
					if i := strings.Index(c.Text, "verif:model "); i >= 0 {
						callee := strings.TrimSpace(c.Text[i+len("verif:model "):])
						if fn := sp.Func(fd.Name.Name); fn != nil {
							hm[callee] = fn
						}
					}
				}
			}
		}
	}
	return prog, initial, hm, nil
}
