// Package sym: a symbolic interpreter for go/ssa.  Heap shape is concrete, data
// (integers, booleans, bytes, byte-slice offsets/lengths) may be SMT terms.
package sym

import (
	"fmt"
	"go/types"
	"strings"

	"golang.org/x/tools/go/ssa"

	"gosymx/smt"
)

// Val is any interpreter value:
//
//	*smt.Term            integers (BV w) and booleans (Bool)
//	float64              floats (concrete only)
//	Str                  strings (concrete, or concrete-length sequence of byte terms)
//	*Val                 pointer to a cell
//	BPtr                 pointer to a byte inside a byte-array cell
//	BArr                 [N]byte value / backing store of a []byte (immutable array term)
//	BSlice               []byte
//	Slice                []T for other T (a Go slice of cells; aliasing = Go's)
//	Arr                  [N]T value
//	Struct               struct value
//	Iface                interface value
//	*Map, *Chan
//	*ssa.Function, *ssa.Builtin, *Closure
//	Tuple
type Val interface{}

type Tuple []Val
type Arr []Val
type Struct []Val
type Slice []Val

type Iface struct {
	T types.Type // nil for nil interface
	V Val
}

type Closure struct {
	Fn  *ssa.Function
	Env []Val
}

// BArr is the content of a byte array cell.
type BArr struct {
	A *smt.Term // (Array BV64 BV8)
}

// BPtr points to byte Idx of the BArr stored in *Cell.
type BPtr struct {
	Cell *Val
	Idx  *smt.Term // BV64
}

// BSlice is a []byte: window [Off, Off+Len) of the BArr in *Cell, capacity Cap (from Off).
type BSlice struct {
	Cell          *Val // nil for the nil slice
	Off, Len, Cap *smt.Term
}

// Str is a string value.
type Str struct {
	S string      // concrete content when B == nil
	B []*smt.Term // otherwise one BV8 term per byte
}

func (s Str) Len() int {
	if s.B != nil {
		return len(s.B)
	}
	return len(s.S)
}

func (s Str) IsConc() bool { return s.B == nil }

// Map is an insertion-ordered association list with a string index for concrete keys.
type Map struct {
	keys  []Val
	vals  []Val
	index map[string]int
	dead  []bool
	n     int
}

type Chan struct {
	cap    int
	buf    []Val
	closed bool
	// unbuffered rendezvous bookkeeping is in sched.go
	recvWaiting int
	id          int
}

// unsafePtr wraps any value stored in an unsafe.Pointer slot.
type unsafePtr struct{ V Val }

type bad struct{}

func isByte(t types.Type) bool {
	b, ok := t.Underlying().(*types.Basic)
	return ok && b.Kind() == types.Uint8
}

// intInfo returns the bit width and signedness of an integer type.
func intInfo(t types.Type) (w int, signed bool, ok bool) {
	b, isb := t.Underlying().(*types.Basic)
	if !isb {
		return 0, false, false
	}
	switch b.Kind() {
	case types.Int, types.Int64, types.UntypedInt:
		return 64, true, true
	case types.Int8:
		return 8, true, true
	case types.Int16:
		return 16, true, true
	case types.Int32, types.UntypedRune:
		return 32, true, true
	case types.Uint, types.Uint64, types.Uintptr:
		return 64, false, true
	case types.Uint8:
		return 8, false, true
	case types.Uint16:
		return 16, false, true
	case types.Uint32:
		return 32, false, true
	}
	return 0, false, false
}

func isBool(t types.Type) bool {
	b, ok := t.Underlying().(*types.Basic)
	return ok && b.Info()&types.IsBoolean != 0
}
func isString(t types.Type) bool {
	b, ok := t.Underlying().(*types.Basic)
	return ok && b.Info()&types.IsString != 0
}
func isFloat(t types.Type) bool {
	b, ok := t.Underlying().(*types.Basic)
	return ok && b.Info()&types.IsFloat != 0
}

// zero returns the zero value of t.
func (in *Interp) zero(t types.Type) Val {
	switch u := t.Underlying().(type) {
	case *types.Basic:
		if w, _, ok := intInfo(u); ok {
			return in.ctx.Const(w, 0)
		}
		switch {
		case u.Info()&types.IsBoolean != 0:
			return in.ctx.False
		case u.Info()&types.IsString != 0:
			return Str{}
		case u.Info()&types.IsFloat != 0:
			return float64(0)
		case u.Kind() == types.UnsafePointer:
			return unsafePtr{}
		case u.Kind() == types.UntypedNil:
			return nil
		case u.Info()&types.IsComplex != 0:
			return complex128(0)
		}
		panic(fmt.Sprintf("zero: basic %v", u))
	case *types.Pointer:
		if a, ok := u.Elem().Underlying().(*types.Array); ok && isByte(a.Elem()) {
			return (*Val)(nil)
		}
		return (*Val)(nil)
	case *types.Array:
		if isByte(u.Elem()) {
			return BArr{in.ctx.ConstArr(0)}
		}
		a := make(Arr, u.Len())
		for i := range a {
			a[i] = in.zero(u.Elem())
		}
		return a
	case *types.Struct:
		s := make(Struct, u.NumFields())
		for i := range s {
			s[i] = in.zero(u.Field(i).Type())
		}
		return s
	case *types.Slice:
		if isByte(u.Elem()) {
			z := in.ctx.Const(64, 0)
			return BSlice{nil, z, z, z}
		}
		return Slice(nil)
	case *types.Interface:
		return Iface{}
	case *types.Map:
		return (*Map)(nil)
	case *types.Chan:
		return (*Chan)(nil)
	case *types.Signature:
		return (*ssa.Function)(nil)
	case *types.Tuple:
		if u.Len() == 1 {
			return in.zero(u.At(0).Type())
		}
		tp := make(Tuple, u.Len())
		for i := range tp {
			tp[i] = in.zero(u.At(i).Type())
		}
		return tp
	case *types.TypeParam:
		panic(unsupported("zero value of type parameter " + t.String()))
	}
	panic(fmt.Sprintf("zero: unhandled type %T %v", t.Underlying(), t))
}

// copyVal makes an unaliased copy of aggregates (struct/array values).
func copyVal(v Val) Val {
	switch x := v.(type) {
	case Struct:
		o := make(Struct, len(x))
		for i, f := range x {
			o[i] = copyVal(f)
		}
		return o
	case Arr:
		o := make(Arr, len(x))
		for i, f := range x {
			o[i] = copyVal(f)
		}
		return o
	case Tuple:
		return x
	}
	return v
}

// ---- Str helpers ----

func (in *Interp) strByte(s Str, i int) *smt.Term {
	if s.B != nil {
		return s.B[i]
	}
	return in.ctx.Const(8, uint64(s.S[i]))
}

func (in *Interp) strBytes(s Str) []*smt.Term {
	if s.B != nil {
		return s.B
	}
	out := make([]*smt.Term, len(s.S))
	for i := range out {
		out[i] = in.ctx.Const(8, uint64(s.S[i]))
	}
	return out
}

func normStr(b []*smt.Term) Str {
	for _, t := range b {
		if !t.IsConst() {
			return Str{B: b}
		}
	}
	bs := make([]byte, len(b))
	for i, t := range b {
		bs[i] = byte(t.Val)
	}
	return Str{S: string(bs)}
}

func (in *Interp) strConcat(a, b Str) Str {
	if a.B == nil && b.B == nil {
		return Str{S: a.S + b.S}
	}
	out := append(append([]*smt.Term{}, in.strBytes(a)...), in.strBytes(b)...)
	return Str{B: out}
}

func (in *Interp) strEq(a, b Str) *smt.Term {
	if a.Len() != b.Len() {
		return in.ctx.False
	}
	if a.B == nil && b.B == nil {
		return in.ctx.BoolC(a.S == b.S)
	}
	cs := make([]*smt.Term, 0, a.Len())
	for i := 0; i < a.Len(); i++ {
		cs = append(cs, in.ctx.Eq(in.strByte(a, i), in.strByte(b, i)))
	}
	return in.ctx.And(cs...)
}

// strLess: a < b lexicographically (byte-wise).
func (in *Interp) strLess(a, b Str) *smt.Term {
	if a.B == nil && b.B == nil {
		return in.ctx.BoolC(a.S < b.S)
	}
	c := in.ctx
	n := a.Len()
	if b.Len() < n {
		n = b.Len()
	}
	// result = OR_i (prefixEq(i) && a[i]<b[i])  || (prefixEq(n) && len(a)<len(b))
	res := c.BoolC(a.Len() < b.Len())
	for i := n - 1; i >= 0; i-- {
		ai, bi := in.strByte(a, i), in.strByte(b, i)
		res = c.Ite(c.Eq(ai, bi), res, c.Bin(smt.OpULt, ai, bi))
	}
	return res
}

// ---- Map ----

func newMap() *Map { return &Map{index: map[string]int{}} }

// keyString gives a canonical string for a concrete key; ok=false if symbolic.
func keyString(v Val) (string, bool) {
	switch x := v.(type) {
	case *smt.Term:
		if x.IsConst() {
			return fmt.Sprintf("i%d:%d", x.Sort.W, x.Val), true
		}
		return "", false
	case Str:
		if x.B == nil {
			return "s" + x.S, true
		}
		return "", false
	case float64:
		return fmt.Sprintf("f%v", x), true
	case *Val:
		return fmt.Sprintf("p%p", x), true
	case *Map:
		return fmt.Sprintf("m%p", x), true
	case *Chan:
		return fmt.Sprintf("c%p", x), true
	case Iface:
		if x.T == nil {
			return "nil", true
		}
		ks, ok := keyString(x.V)
		return "I" + x.T.String() + "|" + ks, ok
	case Struct:
		var sb strings.Builder
		sb.WriteString("{")
		for _, f := range x {
			ks, ok := keyString(f)
			if !ok {
				return "", false
			}
			sb.WriteString(ks)
			sb.WriteString(";")
		}
		sb.WriteString("}")
		return sb.String(), true
	case Arr:
		var sb strings.Builder
		sb.WriteString("[")
		for _, f := range x {
			ks, ok := keyString(f)
			if !ok {
				return "", false
			}
			sb.WriteString(ks)
			sb.WriteString(";")
		}
		sb.WriteString("]")
		return sb.String(), true
	case *ssa.Function:
		return fmt.Sprintf("F%p", x), true
	case *Closure:
		return fmt.Sprintf("C%p", x), true
	case unsafePtr:
		return keyString(x.V)
	case nil:
		return "nil", true
	}
	panic(fmt.Sprintf("keyString: %T", v))
}

func (m *Map) Len() int { return m.n }

func (m *Map) getConc(ks string) (Val, bool) {
	if i, ok := m.index[ks]; ok {
		return m.vals[i], true
	}
	return nil, false
}

func (m *Map) setConc(ks string, k, v Val) {
	if i, ok := m.index[ks]; ok {
		m.vals[i] = v
		return
	}
	m.index[ks] = len(m.keys)
	m.keys = append(m.keys, k)
	m.vals = append(m.vals, v)
	m.dead = append(m.dead, false)
	m.n++
}

func (m *Map) delConc(ks string) {
	if i, ok := m.index[ks]; ok {
		delete(m.index, ks)
		m.dead[i] = true
		m.keys[i], m.vals[i] = nil, nil
		m.n--
	}
}

func (m *Map) clear() {
	m.keys, m.vals, m.dead, m.n = nil, nil, nil, 0
	m.index = map[string]int{}
}

// live returns indexes of live entries in insertion order.
func (m *Map) live() []int {
	out := make([]int, 0, m.n)
	for i := range m.keys {
		if !m.dead[i] {
			out = append(out, i)
		}
	}
	return out
}

// unsupported is the panic payload for constructs outside the implemented subset.
type unsupportedErr struct{ msg string }

func unsupported(msg string) unsupportedErr { return unsupportedErr{msg} }

// show renders a value for diagnostics.
func show(v Val) string {
	switch x := v.(type) {
	case *smt.Term:
		if x == nil {
			return "<nilterm>"
		}
		if x.IsConst() {
			if x.Sort.K == smt.KBool {
				return fmt.Sprint(x.Val == 1)
			}
			return fmt.Sprint(x.Val)
		}
		return fmt.Sprintf("<sym#%d>", x.ID)
	case Str:
		if x.B == nil {
			return fmt.Sprintf("%q", x.S)
		}
		return fmt.Sprintf("<symstr len=%d>", len(x.B))
	case Iface:
		if x.T == nil {
			return "nil"
		}
		return fmt.Sprintf("iface(%v)", x.T)
	case Struct:
		return fmt.Sprintf("struct/%d", len(x))
	case nil:
		return "nil"
	}
	return fmt.Sprintf("%T", v)
}
