package sym

import (
	"fmt"
	"go/types"
	"reflect"
	"strings"

	"golang.org/x/tools/go/ssa"

	"gosymx/smt"
)

// regexp: compiled objects are opaque (zero struct + remembered pattern); only the few
// uses the repository makes are given a meaning, everything else is unsupported.
func registerRegexpModels(e *Engine) {
	compile := func(in *Interp, fr *frame, fn *ssa.Function, a []Val) Val {
		res := fn.Signature.Results()
		cell := new(Val)
		*cell = in.zero(deref(res.At(0).Type()))
		pat, _ := a[0].(Str)
		in.side[fmt.Sprintf("re%p", cell)] = pat.S
		if res.Len() == 2 {
			return Tuple{cell, Iface{}}
		}
		return cell
	}
	e.reg("regexp.MustCompile", compile)
	e.reg("regexp.Compile", compile)
	patOf := func(in *Interp, v Val) string {
		p, _ := v.(*Val)
		s, _ := in.side[fmt.Sprintf("re%p", p)].(string)
		return s
	}
	e.reg("(*regexp.Regexp).ReplaceAllString", func(in *Interp, fr *frame, fn *ssa.Function, a []Val) Val {
		pat := patOf(in, a[0])
		src, repl := a[1].(Str), a[2].(Str)
		if pat == `[^0-9]` && repl.Len() == 0 {
			// documented meaning: delete every byte outside '0'..'9'
			c := in.ctx
			var out []*smt.Term
			for i := 0; i < src.Len(); i++ {
				b := in.strByte(src, i)
				if in.Branch(c.And(c.Bin(smt.OpULe, c.Const(8, '0'), b), c.Bin(smt.OpULe, b, c.Const(8, '9')))) {
					out = append(out, b)
				}
			}
			if len(out) == 0 {
				return Str{}
			}
			return normStr(out)
		}
		panic(unsupported("regexp ReplaceAllString for pattern " + pat))
	})
	e.reg("(*regexp.Regexp).MatchString", func(in *Interp, fr *frame, fn *ssa.Function, a []Val) Val {
		// contract-level: an arbitrary answer (havoc); harnesses that depend on it cannot be replayed natively
		t := in.fresh("rematch", smt.Bool)
		in.inputs = append(in.inputs, Input{Kind: "bool", T: t, Label: "regexp.MatchString(" + patOf(in, a[0]) + ")"})
		return t
	})
}

// ---- encoding/json: recording model ----
// Marshal(v) returns the opaque text {"#":NNNN}; the argument is remembered under NNNN and
// can be inspected by harnesses through verif.JSONInt/JSONString/JSONStrings/JSONHas.

func (in *Interp) jsonRecord(v Val) Str {
	tab, _ := in.side["json"].([]Val)
	tab = append(tab, v)
	in.side["json"] = tab
	return Str{S: fmt.Sprintf(`{"#":%04d}`, len(tab)-1)}
}

func (in *Interp) jsonLookup(b Val) (Val, bool) {
	var s Str
	switch x := b.(type) {
	case BSlice:
		if x.Cell == nil {
			return nil, false
		}
		n := in.Concretize(x.Len)
		if n < 10 {
			return nil, false
		}
		arr := (*x.Cell).(BArr).A
		bs := make([]*smt.Term, 10)
		for i := range bs {
			bs[i] = in.ctx.Select(arr, in.ctx.Bin(smt.OpAdd, x.Off, in.ctx.Const(64, uint64(i))))
		}
		s = normStr(bs)
	case Str:
		s = x
	}
	if s.B != nil || len(s.S) < 10 || s.S[:5] != `{"#":` {
		return nil, false
	}
	id := 0
	for _, ch := range s.S[5:9] {
		id = id*10 + int(ch-'0')
	}
	tab, _ := in.side["json"].([]Val)
	if id >= len(tab) {
		return nil, false
	}
	return tab[id], true
}

// jsonField finds key in a recorded map[string]any or struct (by json tag or field name).
func (in *Interp) jsonField(rec Val, key string) (Val, bool) {
	iv, ok := rec.(Iface)
	if !ok || iv.T == nil {
		return nil, false
	}
	switch v := iv.V.(type) {
	case *Map:
		if v == nil {
			return nil, false
		}
		i, _, found := in.mapFind(v, Str{S: key})
		if !found {
			return nil, false
		}
		return v.vals[i], true
	case Struct:
		return structJSONField(iv.T, v, key)
	case *Val:
		if v == nil {
			return nil, false
		}
		if st, ok := (*v).(Struct); ok {
			return structJSONField(deref(iv.T), st, key)
		}
	}
	return nil, false
}

func registerJSONModels(e *Engine) {
	e.reg("encoding/json.Marshal", func(in *Interp, fr *frame, fn *ssa.Function, a []Val) Val {
		return Tuple{in.bytesOfStr(in.jsonRecord(a[0])), Iface{}}
	})
	get := func(in *Interp, a []Val) (Val, bool) {
		rec, ok := in.jsonLookup(a[0])
		if !ok {
			return nil, false
		}
		v, ok := in.jsonField(rec, a[1].(Str).S)
		if !ok {
			return nil, false
		}
		if iv, isI := v.(Iface); isI {
			v = iv.V
		}
		return v, true
	}
	v := func(name string, m ModelFn) { e.reg(verifPkg+"."+name, m) }
	v("JSONHas", func(in *Interp, fr *frame, fn *ssa.Function, a []Val) Val {
		_, ok := get(in, a)
		return in.ctx.BoolC(ok)
	})
	v("JSONInt", func(in *Interp, fr *frame, fn *ssa.Function, a []Val) Val {
		x, ok := get(in, a)
		if t, isT := x.(*smt.Term); ok && isT && t.Sort.K == smt.KBV {
			if t.Sort.W < 64 {
				return in.ctx.SExt(64-t.Sort.W, t)
			}
			return t
		}
		return in.ctx.Const(64, 0x7fffffffffffff01)
	})
	v("JSONString", func(in *Interp, fr *frame, fn *ssa.Function, a []Val) Val {
		x, ok := get(in, a)
		if s, isS := x.(Str); ok && isS {
			return s
		}
		return Str{S: "\x00<no such json string>"}
	})
	v("JSONStrings", func(in *Interp, fr *frame, fn *ssa.Function, a []Val) Val {
		x, ok := get(in, a)
		if s, isS := x.(Slice); ok && isS {
			return s
		}
		return Slice(nil)
	})
}

func structJSONField(t types.Type, st Struct, key string) (Val, bool) {
	ts, ok := t.Underlying().(*types.Struct)
	if !ok {
		return nil, false
	}
	for i := 0; i < ts.NumFields(); i++ {
		name := ts.Field(i).Name()
		if tag := reflect.StructTag(ts.Tag(i)).Get("json"); tag != "" {
			if n := strings.Split(tag, ",")[0]; n != "" {
				name = n
			}
		}
		if name == key {
			return st[i], true
		}
	}
	return nil, false
}

// strings.ToUpper / ToLower on symbolic strings: byte-wise on ASCII (the model assumes
// every symbolic byte is < 0x80; non-ASCII input is outside the claim of harnesses using it).
func registerStringModels(e *Engine) {
	mk := func(upper bool) ModelFn {
		return func(in *Interp, fr *frame, fn *ssa.Function, a []Val) Val {
			s := a[0].(Str)
			if s.B == nil {
				if upper {
					return Str{S: strings.ToUpper(s.S)}
				}
				return Str{S: strings.ToLower(s.S)}
			}
			c := in.ctx
			out := make([]*smt.Term, len(s.B))
			for i, b := range s.B {
				in.Assume(c.Bin(smt.OpULt, b, c.Const(8, 0x80)))
				lo, hi, d := uint64('a'), uint64('z'), c.Const(8, 0xe0) // -32
				if !upper {
					lo, hi, d = 'A', 'Z', c.Const(8, 32)
				}
				isL := c.And(c.Bin(smt.OpULe, c.Const(8, lo), b), c.Bin(smt.OpULe, b, c.Const(8, hi)))
				out[i] = c.Ite(isL, c.Bin(smt.OpAdd, b, d), b)
			}
			return normStr(out)
		}
	}
	e.reg("strings.ToUpper", mk(true))
	e.reg("strings.ToLower", mk(false))
	e.reg("internal/bytealg.MakeNoZero", func(in *Interp, fr *frame, fn *ssa.Function, a []Val) Val {
		n := a[0].(*smt.Term)
		cell := new(Val)
		*cell = BArr{in.ctx.ConstArr(0)}
		return BSlice{cell, in.ctx.Const(64, 0), n, n}
	})
}
