package sym

import (
	"encoding/json"
	"fmt"
	"go/types"
	"reflect"
	"regexp"
	"strings"

	"golang.org/x/tools/go/ssa"

	"gosymx/smt"
)

// regexp: compiled objects are opaque (zero struct + remembered pattern); only the few
// uses the repository makes are given a meaning, everything else is unsupported.
func registerRegexpModels(e *Engine) {
	compile := func(in *Interp, fr *frame, fn *ssa.Function, a []Val) Val {
		res := fn.Signature.Results()
		cell := new(Val)
		*cell = in.zero(deref(res.At(0).Type()))
		pat, _ := a[0].(Str)
		in.side[fmt.Sprintf("re%p", cell)] = pat.S
		if res.Len() == 2 {
			return Tuple{cell, Iface{}}
		}
		return cell
	}
	e.reg("regexp.MustCompile", compile)
	e.reg("regexp.Compile", compile)
	patOf := func(in *Interp, v Val) string {
		p, _ := v.(*Val)
		s, _ := in.side[fmt.Sprintf("re%p", p)].(string)
		return s
	}
	// concrete subjects are handed to Go's own regexp engine
	conc := func(in *Interp, v Val) (*regexp.Regexp, bool) {
		re, err := regexp.Compile(patOf(in, v))
		return re, err == nil
	}
	e.reg("(*regexp.Regexp).ReplaceAllStringFunc", func(in *Interp, fr *frame, fn *ssa.Function, a []Val) Val {
		src := a[1].(Str)
		re, ok := conc(in, a[0])
		if !ok || src.B != nil {
			panic(unsupported("regexp ReplaceAllStringFunc on a symbolic string"))
		}
		var out strings.Builder
		last := 0
		for _, m := range re.FindAllStringIndex(src.S, -1) {
			out.WriteString(src.S[last:m[0]])
			r := in.call(fr, a[2], []Val{Str{S: src.S[m[0]:m[1]]}})
			rs, _ := r.(Str)
			if rs.B != nil {
				panic(unsupported("regexp replacement callback returned a symbolic string"))
			}
			out.WriteString(rs.S)
			last = m[1]
		}
		out.WriteString(src.S[last:])
		return Str{S: out.String()}
	})
	e.reg("(*regexp.Regexp).FindStringSubmatch", func(in *Interp, fr *frame, fn *ssa.Function, a []Val) Val {
		src := a[1].(Str)
		re, ok := conc(in, a[0])
		if !ok || src.B != nil {
			panic(unsupported("regexp FindStringSubmatch on a symbolic string"))
		}
		m := re.FindStringSubmatch(src.S)
		if m == nil {
			return Slice(nil)
		}
		out := make(Slice, len(m))
		for i, x := range m {
			out[i] = Str{S: x}
		}
		return out
	})
	for _, name := range []string{"FindString", "FindStringIndex", "FindAllString", "FindAllStringSubmatch", "Match", "ReplaceAll", "ReplaceAllLiteralString", "Split", "FindSubmatch", "Find"} {
		name := name
		e.reg("(*regexp.Regexp)."+name, func(in *Interp, fr *frame, fn *ssa.Function, a []Val) Val {
			panic(unsupported("regexp method " + name + " has no model"))
		})
	}
	e.reg("(*regexp.Regexp).ReplaceAllString", func(in *Interp, fr *frame, fn *ssa.Function, a []Val) Val {
		pat := patOf(in, a[0])
		src, repl := a[1].(Str), a[2].(Str)
		if src.B == nil && repl.B == nil {
			if re, ok := conc(in, a[0]); ok {
				return Str{S: re.ReplaceAllString(src.S, repl.S)}
			}
		}
		if pat == `[^0-9]` && repl.Len() == 0 {
			// documented meaning: delete every byte outside '0'..'9'
			c := in.ctx
			var out []*smt.Term
			for i := 0; i < src.Len(); i++ {
				b := in.strByte(src, i)
				if in.Branch(c.And(c.Bin(smt.OpULe, c.Const(8, '0'), b), c.Bin(smt.OpULe, b, c.Const(8, '9')))) {
					out = append(out, b)
				}
			}
			if len(out) == 0 {
				return Str{}
			}
			return normStr(out)
		}
		panic(unsupported("regexp ReplaceAllString for pattern " + pat))
	})
	e.reg("(*regexp.Regexp).MatchString", func(in *Interp, fr *frame, fn *ssa.Function, a []Val) Val {
		if subj, _ := a[1].(Str); subj.B == nil {
			if re, ok := conc(in, a[0]); ok {
				return in.ctx.BoolC(re.MatchString(subj.S))
			}
		}
		// contract-level: an arbitrary answer (havoc); harnesses that depend on it cannot be replayed natively
		t := in.fresh("rematch", smt.Bool)
		in.inputs = append(in.inputs, Input{Kind: "bool", T: t, Label: "regexp.MatchString(" + patOf(in, a[0]) + ")"})
		return t
	})
}

// ---- encoding/json: recording model ----
// Marshal(v) returns the opaque text {"#":NNNN}; the argument is remembered under NNNN and
// can be inspected by harnesses through verif.JSONInt/JSONString/JSONStrings/JSONHas.

func (in *Interp) jsonRecord(v Val) Str {
	tab, _ := in.side["json"].([]Val)
	tab = append(tab, v)
	in.side["json"] = tab
	return Str{S: fmt.Sprintf(`{"#":%04d}`, len(tab)-1)}
}

func (in *Interp) jsonLookup(b Val) (Val, bool) {
	var s Str
	switch x := b.(type) {
	case BSlice:
		if x.Cell == nil {
			return nil, false
		}
		n := in.Concretize(x.Len)
		if n < 10 {
			return nil, false
		}
		arr := (*x.Cell).(BArr).A
		bs := make([]*smt.Term, 10)
		for i := range bs {
			bs[i] = in.ctx.Select(arr, in.ctx.Bin(smt.OpAdd, x.Off, in.ctx.Const(64, uint64(i))))
		}
		s = normStr(bs)
	case Str:
		s = x
	}
	if s.B != nil || len(s.S) < 10 || s.S[:5] != `{"#":` {
		return nil, false
	}
	id := 0
	for _, ch := range s.S[5:9] {
		id = id*10 + int(ch-'0')
	}
	tab, _ := in.side["json"].([]Val)
	if id >= len(tab) {
		return nil, false
	}
	return tab[id], true
}

// jsonField finds key in a recorded map[string]any or struct (by json tag or field name).
func (in *Interp) jsonField(rec Val, key string) (Val, bool) {
	iv, ok := rec.(Iface)
	if !ok || iv.T == nil {
		return nil, false
	}
	switch v := iv.V.(type) {
	case *Map:
		if v == nil {
			return nil, false
		}
		i, _, found := in.mapFind(v, Str{S: key})
		if !found {
			return nil, false
		}
		return v.vals[i], true
	case Struct:
		return structJSONField(iv.T, v, key)
	case *Val:
		if v == nil {
			return nil, false
		}
		if st, ok := (*v).(Struct); ok {
			return structJSONField(deref(iv.T), st, key)
		}
	}
	return nil, false
}

func registerJSONModels(e *Engine) {
	e.reg("encoding/json.Marshal", func(in *Interp, fr *frame, fn *ssa.Function, a []Val) Val {
		return Tuple{in.bytesOfStr(in.jsonRecord(a[0])), Iface{}}
	})
	get := func(in *Interp, a []Val) (Val, bool) {
		rec, ok := in.jsonLookup(a[0])
		if !ok {
			return nil, false
		}
		v, ok := in.jsonField(rec, a[1].(Str).S)
		if !ok {
			return nil, false
		}
		if iv, isI := v.(Iface); isI {
			v = iv.V
		}
		return v, true
	}
	v := func(name string, m ModelFn) { e.reg(verifPkg+"."+name, m) }
	v("JSONHas", func(in *Interp, fr *frame, fn *ssa.Function, a []Val) Val {
		_, ok := get(in, a)
		return in.ctx.BoolC(ok)
	})
	v("JSONInt", func(in *Interp, fr *frame, fn *ssa.Function, a []Val) Val {
		x, ok := get(in, a)
		if t, isT := x.(*smt.Term); ok && isT && t.Sort.K == smt.KBV {
			if t.Sort.W < 64 {
				return in.ctx.SExt(64-t.Sort.W, t)
			}
			return t
		}
		return in.ctx.Const(64, 0x7fffffffffffff01)
	})
	v("JSONString", func(in *Interp, fr *frame, fn *ssa.Function, a []Val) Val {
		x, ok := get(in, a)
		if s, isS := x.(Str); ok && isS {
			return s
		}
		return Str{S: "\x00<no such json string>"}
	})
	// JSONIsList: the member exists and is encoded as a JSON list (a nil slice encodes as null)
	v("JSONIsList", func(in *Interp, fr *frame, fn *ssa.Function, a []Val) Val {
		x, ok := get(in, a)
		s, isS := x.(Slice)
		return in.ctx.BoolC(ok && isS && s != nil)
	})
	v("JSONStrings", func(in *Interp, fr *frame, fn *ssa.Function, a []Val) Val {
		x, ok := get(in, a)
		if s, isS := x.(Slice); ok && isS {
			return s
		}
		return Slice(nil)
	})
}

func structJSONField(t types.Type, st Struct, key string) (Val, bool) {
	ts, ok := t.Underlying().(*types.Struct)
	if !ok {
		return nil, false
	}
	for i := 0; i < ts.NumFields(); i++ {
		name := ts.Field(i).Name()
		if tag := reflect.StructTag(ts.Tag(i)).Get("json"); tag != "" {
			if n := strings.Split(tag, ",")[0]; n != "" {
				name = n
			}
		}
		if name == key {
			return st[i], true
		}
	}
	return nil, false
}

// strings.ToUpper / ToLower on symbolic strings: byte-wise on ASCII (the model assumes
// every symbolic byte is < 0x80; non-ASCII input is outside the claim of harnesses using it).
func registerStringModels(e *Engine) {
	mk := func(upper bool) ModelFn {
		return func(in *Interp, fr *frame, fn *ssa.Function, a []Val) Val {
			s := a[0].(Str)
			if s.B == nil {
				if upper {
					return Str{S: strings.ToUpper(s.S)}
				}
				return Str{S: strings.ToLower(s.S)}
			}
			c := in.ctx
			out := make([]*smt.Term, len(s.B))
			for i, b := range s.B {
				in.Assume(c.Bin(smt.OpULt, b, c.Const(8, 0x80)))
				lo, hi, d := uint64('a'), uint64('z'), c.Const(8, 0xe0) // -32
				if !upper {
					lo, hi, d = 'A', 'Z', c.Const(8, 32)
				}
				isL := c.And(c.Bin(smt.OpULe, c.Const(8, lo), b), c.Bin(smt.OpULe, b, c.Const(8, hi)))
				out[i] = c.Ite(isL, c.Bin(smt.OpAdd, b, d), b)
			}
			return normStr(out)
		}
	}
	ident := func(in *Interp, fr *frame, fn *ssa.Function, a []Val) Val { return a[0] }
	e.reg("internal/stringslite.Clone", ident)
	e.reg("strings.Clone", ident)
	e.reg("strings.ToUpper", mk(true))
	e.reg("strings.ToLower", mk(false))
	e.reg("internal/bytealg.MakeNoZero", func(in *Interp, fr *frame, fn *ssa.Function, a []Val) Val {
		n := a[0].(*smt.Term)
		cell := new(Val)
		*cell = BArr{in.ctx.ConstArr(0)}
		return BSlice{cell, in.ctx.Const(64, 0), n, n}
	})
}

// invokeMethod calls method name on the dynamic value of an interface.
func (in *Interp) invokeMethod(fr *frame, iv Iface, name string, args ...Val) Val {
	if iv.T == nil {
		in.goPanicStr("invalid memory address or nil pointer dereference (method call on nil interface)")
	}
	ms := in.W.Prog.MethodSets.MethodSet(iv.T)
	for i := 0; i < ms.Len(); i++ {
		if ms.At(i).Obj().Name() == name {
			f := in.W.Prog.MethodValue(ms.At(i))
			return in.callFn(fr, f, append([]Val{iv.V}, args...))
		}
	}
	panic(unsupported("no method " + name + " on " + iv.T.String()))
}

// ---- compressors: recording pass-through ----
// A writer of codec X forwards everything it is given to the underlying writer, prefixed
// once by the tag "X:" (GZ, FL = raw deflate, ZL = zlib, BR, ZS).  Harnesses check which
// codec produced a body; "decodes under that coding" itself rests on the libraries.

type compRec struct {
	tag    string
	w      Iface
	tagged bool
	closed bool
}

func (in *Interp) compNew(fn *ssa.Function, tag string, w Val, withErr bool) Val {
	res := fn.Signature.Results()
	cell := new(Val)
	*cell = in.zero(deref(res.At(0).Type()))
	in.side[fmt.Sprintf("comp%p", cell)] = &compRec{tag: tag, w: w.(Iface)}
	if withErr {
		return Tuple{cell, Iface{}}
	}
	return cell
}

func (in *Interp) compWrite(fr *frame, recv Val, p Val, closing bool) Val {
	q := nilCheck(in, recv)
	r, _ := in.side[fmt.Sprintf("comp%p", q)].(*compRec)
	if r == nil {
		panic(unsupported("write on an unknown compressor object"))
	}
	if !r.tagged {
		r.tagged = true
		in.invokeMethod(fr, r.w, "Write", in.bytesOfStr(Str{S: r.tag + ":"}))
	}
	if closing {
		// Close finishes the stream: the trailer every decoder of the coding insists on
		if !r.closed {
			r.closed = true
			in.invokeMethod(fr, r.w, "Write", in.bytesOfStr(Str{S: ";"}))
		}
		return Iface{}
	}
	b := p.(BSlice)
	in.invokeMethod(fr, r.w, "Write", b)
	return Tuple{b.Len, Iface{}}
}

func registerCompressModels(e *Engine) {
	type ctor struct {
		name, tag string
		withErr   bool
	}
	for _, c := range []ctor{
		{"compress/gzip.NewWriterLevel", "GZ", true},
		{"compress/flate.NewWriter", "FL", true},
		{"compress/zlib.NewWriterLevel", "ZL", true},
		{"github.com/andybalholm/brotli.NewWriterLevel", "BR", false},
		{"github.com/klauspost/compress/zstd.NewWriter", "ZS", true},
	} {
		c := c
		e.reg(c.name, func(in *Interp, fr *frame, fn *ssa.Function, a []Val) Val {
			return in.compNew(fn, c.tag, a[0], c.withErr)
		})
	}
	e.reg("compress/gzip.NewWriter", func(in *Interp, fr *frame, fn *ssa.Function, a []Val) Val { return in.compNew(fn, "GZ", a[0], false) })
	e.reg("compress/zlib.NewWriter", func(in *Interp, fr *frame, fn *ssa.Function, a []Val) Val { return in.compNew(fn, "ZL", a[0], false) })
	e.reg("github.com/andybalholm/brotli.NewWriter", func(in *Interp, fr *frame, fn *ssa.Function, a []Val) Val { return in.compNew(fn, "BR", a[0], false) })
	e.reg("github.com/klauspost/compress/zstd.WithEncoderLevel", func(in *Interp, fr *frame, fn *ssa.Function, a []Val) Val {
		return (*ssa.Function)(nil)
	})
	for _, t := range []string{"compress/gzip.Writer", "compress/flate.Writer", "compress/zlib.Writer", "github.com/andybalholm/brotli.Writer", "github.com/klauspost/compress/zstd.Encoder"} {
		e.reg("(*"+t+").Write", func(in *Interp, fr *frame, fn *ssa.Function, a []Val) Val { return in.compWrite(fr, a[0], a[1], false) })
		e.reg("(*"+t+").Close", func(in *Interp, fr *frame, fn *ssa.Function, a []Val) Val { return in.compWrite(fr, a[0], nil, true) })
		// Flush pushes out what was written so far WITHOUT finishing the stream (no trailer)
		e.reg("(*"+t+").Flush", func(in *Interp, fr *frame, fn *ssa.Function, a []Val) Val {
			q := nilCheck(in, a[0])
			if r, _ := in.side[fmt.Sprintf("comp%p", q)].(*compRec); r != nil && !r.tagged {
				r.tagged = true
				in.invokeMethod(fr, r.w, "Write", in.bytesOfStr(Str{S: r.tag + ":"}))
			}
			return Iface{}
		})
		// Reset(w): the writer starts a new stream on w
		tag := map[string]string{"compress/gzip.Writer": "GZ", "compress/flate.Writer": "FL", "compress/zlib.Writer": "ZL", "github.com/andybalholm/brotli.Writer": "BR", "github.com/klauspost/compress/zstd.Encoder": "ZS"}[t]
		e.reg("(*"+t+").Reset", func(in *Interp, fr *frame, fn *ssa.Function, a []Val) Val {
			q := nilCheck(in, a[0])
			w, _ := a[1].(Iface)
			in.side[fmt.Sprintf("comp%p", q)] = &compRec{tag: tag, w: w}
			return nil
		})
	}
	// json.Encoder: Encode(v) writes the recording text of v plus a newline
	e.reg("encoding/json.NewEncoder", func(in *Interp, fr *frame, fn *ssa.Function, a []Val) Val {
		cell := new(Val)
		*cell = in.zero(deref(fn.Signature.Results().At(0).Type()))
		in.side[fmt.Sprintf("jenc%p", cell)] = a[0]
		return cell
	})
	e.reg("(*encoding/json.Encoder).Encode", func(in *Interp, fr *frame, fn *ssa.Function, a []Val) Val {
		q := nilCheck(in, a[0])
		w, _ := in.side[fmt.Sprintf("jenc%p", q)].(Iface)
		txt := in.jsonRecord(a[1])
		in.invokeMethod(fr, w, "Write", in.bytesOfStr(Str{S: txt.S + "\n"}))
		return Iface{}
	})
	// verif.JSONText(b): the Go string whose JSON encoding is b
	e.reg(verifPkg+".JSONText", func(in *Interp, fr *frame, fn *ssa.Function, a []Val) Val {
		rec, ok := in.jsonLookup(a[0])
		if iv, isI := rec.(Iface); ok && isI {
			if s, isS := iv.V.(Str); isS {
				return Tuple{s, in.ctx.True}
			}
		}
		return Tuple{Str{}, in.ctx.False}
	})
}

// (*net/http.Cookie).String for well-formed cookies (valid name, plain value): the
// documented serialisation Name=Value; Path=..; Domain=..; Max-Age=..; HttpOnly; Secure; SameSite=..
// (net/http's validity tables live in package initialisers that are not executed).
func registerCookieModel(e *Engine) {
	e.reg("(*net/http.Cookie).String", func(in *Interp, fr *frame, fn *ssa.Function, a []Val) Val {
		p := nilCheck(in, a[0])
		rt := recvT(fn)
		str := func(name string) Str { s, _ := (*fieldCell(p, rt, name)).(Str); return s }
		out := in.strConcat(in.strConcat(str("Name"), Str{S: "="}), str("Value"))
		if s := str("Path"); s.Len() > 0 {
			out = in.strConcat(in.strConcat(out, Str{S: "; Path="}), s)
		}
		if s := str("Domain"); s.Len() > 0 {
			out = in.strConcat(in.strConcat(out, Str{S: "; Domain="}), s)
		}
		if ma := (*fieldCell(p, rt, "MaxAge")).(*smt.Term); ma.IsConst() {
			if v := ma.SVal(); v > 0 {
				out = in.strConcat(out, Str{S: fmt.Sprintf("; Max-Age=%d", v)})
			} else if v < 0 {
				out = in.strConcat(out, Str{S: "; Max-Age=0"})
			}
		} else {
			panic(unsupported("Cookie.String with symbolic MaxAge"))
		}
		flag := func(name string) bool {
			t := (*fieldCell(p, rt, name)).(*smt.Term)
			return in.Branch(t)
		}
		if flag("HttpOnly") {
			out = in.strConcat(out, Str{S: "; HttpOnly"})
		}
		if flag("Secure") {
			out = in.strConcat(out, Str{S: "; Secure"})
		}
		switch in.concInt(*fieldCell(p, rt, "SameSite")) {
		case 2:
			out = in.strConcat(out, Str{S: "; SameSite=Lax"})
		case 3:
			out = in.strConcat(out, Str{S: "; SameSite=Strict"})
		case 4:
			out = in.strConcat(out, Str{S: "; SameSite=None"})
		}
		return out
	})
}

// json.Decoder on concrete input: NewDecoder(r) remembers r; Decode(&p) reads everything
// r supplies (it must be concrete), parses it with Go's own encoding/json and stores the
// result for the target shapes the repository uses: **struct{... string fields ...}.
func registerJSONDecoderModel(e *Engine) {
	e.reg("encoding/json.NewDecoder", func(in *Interp, fr *frame, fn *ssa.Function, a []Val) Val {
		cell := new(Val)
		*cell = in.zero(deref(fn.Signature.Results().At(0).Type()))
		in.side[fmt.Sprintf("jdec%p", cell)] = a[0]
		return cell
	})
	e.reg("(*encoding/json.Decoder).Decode", func(in *Interp, fr *frame, fn *ssa.Function, a []Val) Val {
		q := nilCheck(in, a[0])
		r, _ := in.side[fmt.Sprintf("jdec%p", q)].(Iface)
		// read the whole input
		var data []byte
		for i := 0; i < 64; i++ {
			buf := in.bytesOfStr(Str{S: strings.Repeat("\x00", 64)})
			res := in.invokeMethod(fr, r, "Read", buf).(Tuple)
			n := in.concInt(res[0])
			arr := (*buf.Cell).(BArr).A
			for k := int64(0); k < n; k++ {
				t := in.ctx.Select(arr, in.ctx.Const(64, uint64(k)))
				if !t.IsConst() {
					panic(unsupported("json.Decoder.Decode on symbolic input"))
				}
				data = append(data, byte(t.Val))
			}
			if ev, _ := res[1].(Iface); ev.T != nil || n == 0 {
				break
			}
		}
		tgt, ok := a[1].(Iface)
		pp, isPtr := tgt.V.(*Val)
		if !ok || !isPtr || pp == nil {
			panic(unsupported("json.Decoder.Decode target"))
		}
		var any interface{}
		if err := json.Unmarshal(data, &any); err != nil {
			return in.newError(fr, "json: "+err.Error())
		}
		pt, isPP := deref(tgt.T).Underlying().(*types.Pointer)
		if !isPP {
			panic(unsupported("json.Decoder.Decode target type " + tgt.T.String()))
		}
		st, isStruct := pt.Elem().Underlying().(*types.Struct)
		if !isStruct {
			panic(unsupported("json.Decoder.Decode target type " + tgt.T.String()))
		}
		switch v := any.(type) {
		case nil:
			*pp = (*Val)(nil)
		case map[string]interface{}:
			obj := new(Val)
			sv := in.zero(pt.Elem()).(Struct)
			for i := 0; i < st.NumFields(); i++ {
				name := st.Field(i).Name()
				if tag := reflect.StructTag(st.Tag(i)).Get("json"); tag != "" {
					if n := strings.Split(tag, ",")[0]; n != "" {
						name = n
					}
				}
				for k, x := range v {
					if strings.EqualFold(k, name) {
						if s, isS := x.(string); isS && isString(st.Field(i).Type()) {
							sv[i] = Str{S: s}
						} else if x != nil {
							*obj = sv
							*pp = obj
							return in.newError(fr, "json: cannot unmarshal into field "+name)
						}
					}
				}
			}
			*obj = sv
			*pp = obj
		default:
			// the real decoder allocates the pointee before it reports the type mismatch
			obj := new(Val)
			*obj = in.zero(pt.Elem())
			*pp = obj
			return in.newError(fr, "json: cannot unmarshal value into struct")
		}
		return Iface{}
	})
}
