package sym

import (
	"fmt"

	"golang.org/x/tools/go/ssa"

	"gosymx/smt"
)

const verifPkg = repoMod + "/internal/zzverif"

func registerVerifAPI(e *Engine) {
	v := func(name string, m ModelFn) { e.reg(verifPkg+"."+name, m) }
	symInt := func(in *Interp, w int, sgn bool, label string) *smt.Term {
		t := in.fresh(label, smt.BV(w))
		in.inputs = append(in.inputs, Input{Kind: "int", W: w, Sgn: sgn, T: t, Label: label})
		return t
	}
	v("Cleanup", func(in *Interp, fr *frame, fn *ssa.Function, a []Val) Val { return nil })
	v("ClockAlign", func(in *Interp, fr *frame, fn *ssa.Function, a []Val) Val { return nil })
	v("Tier", func(in *Interp, fr *frame, fn *ssa.Function, a []Val) Val { return in.ctx.Const(64, uint64(in.W.Cfg.Tier)) })
	v("Symbolic", func(in *Interp, fr *frame, fn *ssa.Function, a []Val) Val { return in.ctx.True })
	v("Int64", func(in *Interp, fr *frame, fn *ssa.Function, a []Val) Val { return symInt(in, 64, true, "i64") })
	v("Uint64", func(in *Interp, fr *frame, fn *ssa.Function, a []Val) Val { return symInt(in, 64, false, "u64") })
	v("Byte", func(in *Interp, fr *frame, fn *ssa.Function, a []Val) Val { return symInt(in, 8, false, "b") })
	v("Int", func(in *Interp, fr *frame, fn *ssa.Function, a []Val) Val {
		lo, hi := a[0].(*smt.Term), a[1].(*smt.Term)
		if lo.IsConst() && hi.IsConst() && lo.Val == hi.Val {
			in.inputs = append(in.inputs, Input{Kind: "choose", Conc: lo.SVal(), Label: "int"})
			return lo
		}
		t := symInt(in, 64, true, "int")
		c := in.ctx
		in.Assume(c.And(c.Bin(smt.OpSLe, lo, t), c.Bin(smt.OpSLe, t, hi)))
		return t
	})
	v("Bool", func(in *Interp, fr *frame, fn *ssa.Function, a []Val) Val {
		t := in.fresh("bool", smt.Bool)
		in.inputs = append(in.inputs, Input{Kind: "bool", T: t, Label: "bool"})
		return t
	})
	v("Choose", func(in *Interp, fr *frame, fn *ssa.Function, a []Val) Val {
		n := in.concInt(a[0])
		if n <= 1 {
			return in.ctx.Const(64, 0) // natively Choose(n<=1) consumes no input
		}
		k := in.Choose(int(n))
		in.inputs = append(in.inputs, Input{Kind: "choose", Conc: int64(k), Label: "choose"})
		return in.ctx.Const(64, uint64(k))
	})
	v("Concretize", func(in *Interp, fr *frame, fn *ssa.Function, a []Val) Val {
		k := in.concInt(a[0])
		return in.ctx.Const(64, uint64(k))
	})
	// Bytes(max): symbolic length 0..max, symbolic content, cap == len.
	v("Bytes", func(in *Interp, fr *frame, fn *ssa.Function, a []Val) Val {
		c := in.ctx
		max := a[0].(*smt.Term)
		n := in.fresh("len", smt.BV(64))
		arr := in.fresh("mem", smt.Arr)
		in.inputs = append(in.inputs, Input{Kind: "bytes", T: n, Arr: arr, Max: max.SVal(), Label: "bytes"})
		in.Assume(c.Bin(smt.OpULe, n, max))
		cell := new(Val)
		*cell = BArr{arr}
		return BSlice{cell, c.Const(64, 0), n, n}
	})
	// BytesN(n): concrete length n.
	v("BytesN", func(in *Interp, fr *frame, fn *ssa.Function, a []Val) Val {
		c := in.ctx
		n := a[0].(*smt.Term)
		if !n.IsConst() {
			n = c.Const(64, in.Concretize(n))
		}
		arr := in.fresh("mem", smt.Arr)
		in.inputs = append(in.inputs, Input{Kind: "bytes", T: n, Arr: arr, Max: n.SVal(), Label: "bytesN"})
		cell := new(Val)
		*cell = BArr{arr}
		return BSlice{cell, c.Const(64, 0), n, n}
	})
	// String(max): forks over the length, symbolic bytes.
	v("String", func(in *Interp, fr *frame, fn *ssa.Function, a []Val) Val {
		max := in.concInt(a[0])
		n := in.Choose(int(max) + 1)
		bs := make([]*smt.Term, n)
		for i := range bs {
			bs[i] = in.fresh("sb", smt.BV(8))
		}
		in.inputs = append(in.inputs, Input{Kind: "string", Bytes: bs, Label: "string"})
		if n == 0 {
			return Str{}
		}
		return Str{B: bs}
	})
	// StringN(n): exactly n symbolic bytes.
	v("StringN", func(in *Interp, fr *frame, fn *ssa.Function, a []Val) Val {
		n := int(in.concInt(a[0]))
		bs := make([]*smt.Term, n)
		for i := range bs {
			bs[i] = in.fresh("sb", smt.BV(8))
		}
		in.inputs = append(in.inputs, Input{Kind: "string", Bytes: bs, Label: "stringN"})
		if n == 0 {
			return Str{}
		}
		return Str{B: bs}
	})
	v("Assume", func(in *Interp, fr *frame, fn *ssa.Function, a []Val) Val {
		in.Assume(a[0].(*smt.Term))
		return nil
	})
	v("Assert", func(in *Interp, fr *frame, fn *ssa.Function, a []Val) Val {
		msg := a[1].(Str).S
		site := msg + "@" + fr.site()
		in.Assert(a[0].(*smt.Term), "assert", msg, site)
		return nil
	})
	v("Observe", func(in *Interp, fr *frame, fn *ssa.Function, a []Val) Val {
		in.observes = append(in.observes, observe{a[0].(Str).S, a[1].(Iface)})
		return nil
	})
	// TakeTime: an application callback or listener "takes its time": every other goroutine
	// runs until it blocks, then the callback continues
	v("TakeTime", func(in *Interp, fr *frame, fn *ssa.Function, a []Val) Val {
		in.quiesce()
		return nil
	})
	v("Quiesce", func(in *Interp, fr *frame, fn *ssa.Function, a []Val) Val {
		in.quiesce()
		return nil
	})
	v("Yield", func(in *Interp, fr *frame, fn *ssa.Function, a []Val) Val {
		in.yieldPoint(fr, "harness:"+a[0].(Str).S)
		return nil
	})
	v("Event", func(in *Interp, fr *frame, fn *ssa.Function, a []Val) Val {
		in.events = append(in.events, &event{name: a[0].(Str).S, fn: a[1]})
		return nil
	})
	v("SpawnBudget", func(in *Interp, fr *frame, fn *ssa.Function, a []Val) Val {
		in.spawnBudget = int(in.concInt(a[0]))
		return nil
	})
	v("PreemptPoint", func(in *Interp, fr *frame, fn *ssa.Function, a []Val) Val {
		in.preemptPoint()
		return nil
	})
	v("PreemptBudget", func(in *Interp, fr *frame, fn *ssa.Function, a []Val) Val {
		in.preemptBudget = int(in.concInt(a[0]))
		return nil
	})
	v("InjectBudget", func(in *Interp, fr *frame, fn *ssa.Function, a []Val) Val {
		in.injBudget = int(in.concInt(a[0]))
		return nil
	})
	v("Unreachable", func(in *Interp, fr *frame, fn *ssa.Function, a []Val) Val {
		in.Assert(in.ctx.False, "assert", "unreachable: "+a[0].(Str).S, a[0].(Str).S+"@"+fr.site())
		return nil
	})
	v("Blocked", func(in *Interp, fr *frame, fn *ssa.Function, a []Val) Val {
		// number of interpreted goroutines currently blocked (after Quiesce)
		n := 0
		for _, t := range in.threads[1:] {
			if t.state == tBlocked || (t.state == tRunnable && !t.started) {
				n++
			}
		}
		return in.ctx.Const(64, uint64(n))
	})
	v("HeldLocks", func(in *Interp, fr *frame, fn *ssa.Function, a []Val) Val {
		n := 0
		for _, m := range in.mutexes {
			if m.held || m.readers > 0 {
				n++
			}
		}
		return in.ctx.Const(64, uint64(n))
	})
}

// ---- event injection ----

type event struct {
	name  string
	fn    Val
	fired bool
}

// yieldPoint may run one pending event inline (atomic injection).
func (in *Interp) yieldPoint(fr *frame, kind string) {
	if in.injBudget <= 0 || in.inInjection || len(in.events) == 0 {
		return
	}
	var pend []*event
	for _, ev := range in.events {
		if !ev.fired {
			pend = append(pend, ev)
		}
	}
	if len(pend) == 0 {
		return
	}
	in.yieldCount++
	// the yield point is identified by its key (the log message / the harness label) and
	// the number of times that key has been reached: stable across goroutine interleavings
	yc, _ := in.side["yieldCounts"].(map[string]int)
	if yc == nil {
		yc = map[string]int{}
		in.side["yieldCounts"] = yc
	}
	yc[kind]++
	k := in.Choose(len(pend) + 1)
	if k == 0 {
		return
	}
	ev := pend[k-1]
	ev.fired = true
	in.injBudget--
	in.inputs = append(in.inputs, Input{Kind: "choose", Conc: int64(yc[kind]), Label: "inject:" + ev.name + "@" + kind})
	in.inInjection = true
	in.injThread = in.cur
	in.call(fr, ev.fn, nil)
	in.inInjection = false
	in.injThread = nil
}

func init() { _ = fmt.Sprint }
