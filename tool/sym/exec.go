package sym

import (
	"fmt"
	"time"
	"go/constant"
	"go/token"
	"go/types"
	"strings"
	"sync"

	"golang.org/x/tools/go/ssa"

	"gosymx/smt"
)

// goPanic is an interpreted Go panic travelling up the Go stack of the interpreter.
type goPanic struct {
	val   Val
	msg   string
	stack []string
}

type deferred struct {
	fn   Val
	args []Val
	instr *ssa.Defer
	tail *deferred
}

type fnInfo struct {
	idx  map[ssa.Value]int
	n    int
}

var fnInfos sync.Map // *ssa.Function -> *fnInfo

func infoOf(fn *ssa.Function) *fnInfo {
	if v, ok := fnInfos.Load(fn); ok {
		return v.(*fnInfo)
	}
	fi := &fnInfo{idx: map[ssa.Value]int{}}
	add := func(v ssa.Value) {
		fi.idx[v] = fi.n
		fi.n++
	}
	for _, p := range fn.Params {
		add(p)
	}
	for _, fv := range fn.FreeVars {
		add(fv)
	}
	for _, b := range fn.Blocks {
		for _, ins := range b.Instrs {
			if v, ok := ins.(ssa.Value); ok {
				add(v)
			}
		}
	}
	v, _ := fnInfos.LoadOrStore(fn, fi)
	return v.(*fnInfo)
}

type frame struct {
	in        *Interp
	caller    *frame
	fn        *ssa.Function
	info      *fnInfo
	env       []Val
	block     *ssa.BasicBlock
	prevBlock *ssa.BasicBlock
	defers    *deferred
	result    Val
	panicking bool
	panicVal  interface{}
	symIfs    map[ssa.Instruction]int
	pos       token.Pos
	merged    []Val // phi values of the next block, precomputed by tryMerge
}


func (fr *frame) get(v ssa.Value) Val {
	switch x := v.(type) {
	case *ssa.Const:
		return fr.in.constVal(x)
	case *ssa.Global:
		return fr.in.globalAddr(x)
	case *ssa.Function:
		return x
	case *ssa.Builtin:
		return x
	case nil:
		return nil
	}
	if i, ok := fr.info.idx[v]; ok {
		return fr.env[i]
	}
	panic(fmt.Sprintf("get: no value for %T %v in %s", v, v.Name(), fr.fn))
}

func (fr *frame) set(v ssa.Value, x Val) {
	fr.env[fr.info.idx[v]] = x
}

func (in *Interp) constVal(c *ssa.Const) Val {
	t := c.Type()
	if c.Value == nil {
		if _, ok := t.Underlying().(*types.TypeParam); ok {
			panic(unsupported("const of type parameter"))
		}
		return in.zero(t)
	}
	if b, ok := t.Underlying().(*types.Basic); ok {
		if w, _, ok := intInfo(b); ok {
			if i, exact := constant.Int64Val(constant.ToInt(c.Value)); exact {
				return in.ctx.Const(w, uint64(i))
			}
			u, _ := constant.Uint64Val(constant.ToInt(c.Value))
			return in.ctx.Const(w, u)
		}
		switch {
		case b.Info()&types.IsBoolean != 0:
			return in.ctx.BoolC(constant.BoolVal(c.Value))
		case b.Info()&types.IsString != 0:
			if c.Value.Kind() == constant.String {
				return Str{S: constant.StringVal(c.Value)}
			}
			i, _ := constant.Int64Val(c.Value)
			return Str{S: string(rune(i))}
		case b.Info()&types.IsFloat != 0:
			f, _ := constant.Float64Val(c.Value)
			return f
		case b.Info()&types.IsComplex != 0:
			re, _ := constant.Float64Val(constant.Real(c.Value))
			im, _ := constant.Float64Val(constant.Imag(c.Value))
			return complex(re, im)
		}
	}
	panic(fmt.Sprintf("constVal: %v : %v", c.Value, t))
}

// globalAddr returns the cell of a package-level variable, running the owning
// package's initialiser lazily on first access.
func (in *Interp) globalAddr(g *ssa.Global) *Val {
	if p, ok := in.globals[g]; ok {
		return p
	}
	pkg := g.Pkg
	in.initPackage(pkg)
	if p, ok := in.globals[g]; ok {
		return p
	}
	cell := new(Val)
	*cell = in.zero(deref(g.Type()))
	in.globals[g] = cell
	return cell
}

func deref(t types.Type) types.Type {
	if p, ok := t.Underlying().(*types.Pointer); ok {
		return p.Elem()
	}
	panic("deref of non-pointer " + t.String())
}

func (in *Interp) initPackage(pkg *ssa.Package) {
	if in.inited[pkg] {
		return
	}
	in.inited[pkg] = true
	for _, m := range pkg.Members {
		if g, ok := m.(*ssa.Global); ok {
			cell := new(Val)
			*cell = in.zero(deref(g.Type()))
			in.globals[g] = cell
		}
	}
	if in.W.skipInit(pkg) {
		return
	}
	if init := pkg.Func("init"); init != nil && len(init.Blocks) > 0 {
		saved := in.initDepth
		in.initDepth++
		in.callFn(nil, init, nil)
		in.initDepth = saved
	}
}

// ---- calls ----

func (in *Interp) call(caller *frame, fn Val, args []Val) Val {
	switch f := fn.(type) {
	case *ssa.Function:
		if f == nil {
			in.goPanicStr("invalid memory address or nil pointer dereference (call of nil func)")
		}
		return in.callFn(caller, f, args)
	case *Closure:
		return in.callSSA(caller, f.Fn, args, f.Env)
	case *ssa.Builtin:
		return in.callBuiltin(caller, f, args)
	case *nativeFn:
		return f.f(in, caller, args)
	}
	panic(fmt.Sprintf("cannot call %T", fn))
}

type nativeFn struct {
	name string
	f    func(in *Interp, caller *frame, args []Val) Val
}

func (in *Interp) callFn(caller *frame, fn *ssa.Function, args []Val) Val {
	// package-level init calls from other inits are lazy
	if fn.Name() == "init" && fn.Parent() == nil && fn.Signature.Recv() == nil && fn.Pkg != nil && fn.Synthetic != "" && caller != nil && caller.fn.Name() == "init" {
		return nil
	}
	if m := in.W.lookupModel(fn); m != nil {
		if in.preemptBudget > 0 && (strings.Contains(fn.String(), "sync/atomic") || strings.HasSuffix(fn.String(), "Mutex).Lock") || strings.HasSuffix(fn.String(), "Mutex).RLock")) {
			in.preemptPoint()
		}
		in.modelsUsed[fn.String()]++
		return m(in, caller, fn, args)
	}
	if hm := in.W.harnessModel(fn); hm != nil {
		in.modelsUsed[fn.String()+" (harness model "+hm.Name()+")"]++
		return in.callSSA(caller, hm, args, nil)
	}
	if len(fn.Blocks) == 0 {
		// no body: external.  Try origin for instantiations.
		panic(unsupported("call of function without body: " + fn.String()))
	}
	return in.callSSA(caller, fn, args, nil)
}

func (in *Interp) callSSA(caller *frame, fn *ssa.Function, args []Val, env []Val) Val {
	if len(fn.Blocks) == 0 {
		panic(unsupported("call of function without body: " + fn.String()))
	}
	in.depth++
	if in.depth > 600 {
		in.endPath("limit", "call depth")
	}
	defer func() { in.depth-- }()
	info := infoOf(fn)
	fr := &frame{in: in, caller: caller, fn: fn, info: info, env: make([]Val, info.n)}
	for i, p := range fn.Params {
		fr.env[info.idx[p]] = args[i]
	}
	for i, fv := range fn.FreeVars {
		fr.env[info.idx[fv]] = env[i]
	}
	in.fnsUsed[fn]++
	th := in.cur
	savedTop := th.top
	th.top = fr
	defer func() { th.top = savedTop }()
	fr.block = fn.Blocks[0]
	for fr.block != nil {
		fr.runBlocks()
	}
	return fr.result
}

// runBlocks runs until return or panic; panics are caught to run defers.
func (fr *frame) runBlocks() {
	defer func() {
		if fr.block == nil {
			return // normal return
		}
		r := recover()
		if r == nil {
			return
		}
		if _, ok := r.(*goPanic); !ok {
			if _, isEnd := r.(pathEnd); !isEnd && fr.in.crashStack == nil {
				fr.in.crashStack = fr.in.stackTrace()
			}
			panic(r) // interpreter-level abort: propagate
		}
		fr.panicking = true
		fr.panicVal = r
		// run deferred calls; if recovered, continue at the Recover block
		fr.runDefers()
		fr.block = fr.fn.Recover
		if fr.block == nil {
			// recovered but no recover block: return zero results... (named results are loaded by Recover block normally)
			fr.result = fr.in.zeroResults(fr.fn)
		}
	}()
	for fr.block != nil {
		fr.runBlock()
	}
}

func (in *Interp) zeroResults(fn *ssa.Function) Val {
	res := fn.Signature.Results()
	switch res.Len() {
	case 0:
		return nil
	case 1:
		return in.zero(res.At(0).Type())
	}
	t := make(Tuple, res.Len())
	for i := range t {
		t[i] = in.zero(res.At(i).Type())
	}
	return t
}

func (fr *frame) runBlock() {
	b := fr.block
	in := fr.in
	// phis first (parallel assignment)
	nphi := 0
	for _, ins := range b.Instrs {
		if _, ok := ins.(*ssa.Phi); ok {
			nphi++
		} else {
			break
		}
	}
	if nphi > 0 {
		var pi int
		for i, p := range b.Preds {
			if p == fr.prevBlock {
				pi = i
				break
			}
		}
		tmp := make([]Val, nphi)
		if fr.merged != nil && len(fr.merged) == nphi {
			copy(tmp, fr.merged)
			fr.merged = nil
		} else {
			for i := 0; i < nphi; i++ {
				tmp[i] = fr.get(b.Instrs[i].(*ssa.Phi).Edges[pi])
			}
		}
		for i := 0; i < nphi; i++ {
			fr.set(b.Instrs[i].(*ssa.Phi), tmp[i])
		}
	}
	for _, ins := range b.Instrs[nphi:] {
		in.steps++
		if in.steps > in.W.Cfg.MaxSteps {
			in.endPath("limit", "step limit")
		}
		if in.steps&0xffff == 0 && !in.W.Cfg.Deadline.IsZero() && time.Now().After(in.W.Cfg.Deadline.Add(20*time.Second)) {
			in.endPath("limit", "wall-clock deadline passed inside a path")
		}
		if p := ins.Pos(); p != token.NoPos {
			fr.pos = p
		}
		if fr.visit(ins) {
			return
		}
	}
	panic("block fell through: " + fr.fn.String())
}

func (fr *frame) runDefers() {
	for d := fr.defers; d != nil; d = fr.defers {
		fr.defers = d.tail
		fr.runDefer(d)
	}
	if fr.panicking {
		panic(fr.panicVal)
	}
}

func (fr *frame) runDefer(d *deferred) {
	ok := false
	defer func() {
		if !ok {
			r := recover()
			if _, isGo := r.(*goPanic); !isGo {
				panic(r)
			}
			fr.panicking = true
			fr.panicVal = r
		}
	}()
	fr.in.call(fr, d.fn, d.args)
	ok = true
}

func (in *Interp) goPanicStr(msg string) {
	panic(&goPanic{val: Iface{T: runtimeErrorType, V: Str{S: msg}}, msg: "runtime error: " + msg, stack: in.stackTrace()})
}

// runtimeErrorType stands for runtime.Error values raised by the interpreter.
var runtimeErrorType types.Type = types.NewNamed(types.NewTypeName(token.NoPos, nil, "runtimeError", nil), types.Typ[types.String], nil)

func (in *Interp) stackTrace() []string {
	var out []string
	if in.cur == nil {
		return nil
	}
	for fr := in.cur.top; fr != nil && len(out) < 24; fr = fr.caller {
		out = append(out, fmt.Sprintf("%s (%s)", fr.fn.String(), in.W.Prog.Fset.Position(fr.pos)))
	}
	return out
}

func (fr *frame) site() string {
	p := fr.in.W.Prog.Fset.Position(fr.pos)
	f := p.Filename
	if i := strings.LastIndex(f, "/"); i >= 0 {
		f = f[i+1:]
	}
	return fmt.Sprintf("%s:%d", f, p.Line)
}

func (fr *frame) prepareCall(c *ssa.CallCommon) (Val, []Val) {
	in := fr.in
	v := fr.get(c.Value)
	var fn Val
	var args []Val
	if c.Method == nil {
		fn = v
	} else {
		recv := v.(Iface)
		if recv.T == nil {
			in.goPanicStr("invalid memory address or nil pointer dereference (method call on nil interface)")
		}
		f := in.lookupMethod(recv.T, c.Method)
		if f == nil {
			panic(fmt.Sprintf("method %s not found for %v", c.Method, recv.T))
		}
		fn = f
		args = append(args, recv.V)
	}
	for _, a := range c.Args {
		args = append(args, fr.get(a))
	}
	return fn, args
}

func (in *Interp) lookupMethod(t types.Type, m *types.Func) Val {
	if t == runtimeErrorType {
		switch m.Name() {
		case "Error":
			return &nativeFn{"runtimeError.Error", func(in *Interp, _ *frame, args []Val) Val {
				return Str{S: "runtime error: " + args[0].(Str).S}
			}}
		case "RuntimeError":
			return &nativeFn{"runtimeError.RuntimeError", func(in *Interp, _ *frame, args []Val) Val { return nil }}
		}
		return nil
	}
	f := in.W.Prog.LookupMethod(t, m.Pkg(), m.Name())
	if f == nil {
		return nil
	}
	return f
}

// visit executes one instruction; returns true when control left the block.
func (fr *frame) visit(instr ssa.Instruction) bool {
	in := fr.in
	switch ins := instr.(type) {
	case *ssa.DebugRef:
	case *ssa.UnOp:
		fr.set(ins, in.unop(fr, ins, fr.get(ins.X)))
	case *ssa.BinOp:
		fr.set(ins, in.binop(fr, ins.Op, ins.X.Type(), ins.Y.Type(), fr.get(ins.X), fr.get(ins.Y)))
	case *ssa.Call:
		fn, args := fr.prepareCall(&ins.Call)
		fr.set(ins, in.call(fr, fn, args))
	case *ssa.ChangeInterface:
		fr.set(ins, fr.get(ins.X))
	case *ssa.ChangeType:
		fr.set(ins, fr.get(ins.X))
	case *ssa.Convert:
		fr.set(ins, in.conv(fr, ins.Type(), ins.X.Type(), fr.get(ins.X)))
	case *ssa.MultiConvert:
		fr.set(ins, in.conv(fr, ins.Type(), ins.X.Type(), fr.get(ins.X)))
	case *ssa.SliceToArrayPointer:
		panic(unsupported("SliceToArrayPointer"))
	case *ssa.MakeInterface:
		fr.set(ins, Iface{T: ins.X.Type(), V: fr.get(ins.X)})
	case *ssa.Extract:
		fr.set(ins, fr.get(ins.Tuple).(Tuple)[ins.Index])
	case *ssa.Slice:
		fr.set(ins, in.sliceOp(fr, ins))
	case *ssa.Return:
		switch len(ins.Results) {
		case 0:
		case 1:
			fr.result = fr.get(ins.Results[0])
		default:
			res := make(Tuple, len(ins.Results))
			for i, r := range ins.Results {
				res[i] = fr.get(r)
			}
			fr.result = res
		}
		fr.block = nil
		return true
	case *ssa.RunDefers:
		fr.runDefers()
	case *ssa.Panic:
		v := fr.get(ins.X)
		panic(&goPanic{val: v, msg: in.panicString(v), stack: in.stackTrace()})
	case *ssa.Send:
		in.chanSend(fr, fr.get(ins.Chan).(*Chan), fr.get(ins.X))
	case *ssa.Store:
		in.store(fr, fr.get(ins.Addr), fr.get(ins.Val))
	case *ssa.If:
		c := fr.get(ins.Cond).(*smt.Term)
		var t bool
		if c.IsConst() {
			t = c.Val == 1
		} else {
			if fr.symIfs == nil {
				fr.symIfs = map[ssa.Instruction]int{}
			}
			if fr.tryMerge(ins, c) {
				return true
			}
			fr.symIfs[ins]++
			if fr.symIfs[ins] > in.W.Cfg.Unwind {
				in.W.noteUnwind(fr.fn.String() + ":" + fr.site())
				in.endPath("unwind", "unwinding bound hit at "+fr.fn.String()+" "+fr.site())
			}
			t = in.Branch(c)
		}
		succ := 1
		if t {
			succ = 0
		}
		fr.prevBlock, fr.block = fr.block, fr.block.Succs[succ]
		return true
	case *ssa.Jump:
		fr.prevBlock, fr.block = fr.block, fr.block.Succs[0]
		return true
	case *ssa.Defer:
		fn, args := fr.prepareCall(&ins.Call)
		if ins.DeferStack != nil {
			panic(unsupported("defer with explicit stack (range-over-func)"))
		}
		fr.defers = &deferred{fn: fn, args: args, instr: ins, tail: fr.defers}
	case *ssa.Go:
		fn, args := fr.prepareCall(&ins.Call)
		in.spawn(fr, fn, args)
		if in.spawnBudget > 0 && !in.inInjection {
			// the new goroutine may run before its creator continues
			if in.Choose(2) == 1 {
				in.spawnBudget--
				in.switchTo(in.threads[len(in.threads)-1])
			}
		}
	case *ssa.MakeChan:
		n := in.concInt(fr.get(ins.Size))
		in.nchan++
		fr.set(ins, &Chan{cap: int(n), id: in.nchan})
	case *ssa.Alloc:
		cell := new(Val)
		*cell = in.zero(deref(ins.Type()))
		fr.set(ins, cell)
	case *ssa.MakeSlice:
		fr.set(ins, in.makeSlice(fr, ins))
	case *ssa.MakeMap:
		fr.set(ins, newMap())
	case *ssa.Range:
		fr.set(ins, in.rangeIter(fr, fr.get(ins.X), ins.X.Type()))
	case *ssa.Next:
		fr.set(ins, fr.get(ins.Iter).(iter).next(in))
	case *ssa.FieldAddr:
		p := fr.get(ins.X).(*Val)
		if p == nil {
			in.goPanicStr("invalid memory address or nil pointer dereference")
		}
		st := (*p).(Struct)
		fr.set(ins, &st[ins.Field])
	case *ssa.Field:
		fr.set(ins, copyVal(fr.get(ins.X).(Struct)[ins.Field]))
	case *ssa.IndexAddr:
		fr.set(ins, in.indexAddr(fr, fr.get(ins.X), fr.get(ins.Index).(*smt.Term), ins.X.Type(), ins.Index.Type()))
	case *ssa.Index:
		fr.set(ins, in.index(fr, fr.get(ins.X), fr.get(ins.Index).(*smt.Term), ins.Index.Type()))
	case *ssa.Lookup:
		fr.set(ins, in.lookup(fr, ins))
	case *ssa.MapUpdate:
		m := fr.get(ins.Map).(*Map)
		if m == nil {
			panic(&goPanic{msg: "assignment to entry in nil map", val: Str{S: "assignment to entry in nil map"}})
		}
		in.mapSet(m, fr.get(ins.Key), copyVal(fr.get(ins.Value)))
	case *ssa.TypeAssert:
		fr.set(ins, in.typeAssert(fr, ins, fr.get(ins.X).(Iface)))
	case *ssa.MakeClosure:
		env := make([]Val, len(ins.Bindings))
		for i, b := range ins.Bindings {
			env[i] = fr.get(b)
		}
		fr.set(ins, &Closure{Fn: ins.Fn.(*ssa.Function), Env: env})
	case *ssa.Select:
		fr.set(ins, in.selectOp(fr, ins))
	default:
		panic(unsupported(fmt.Sprintf("instruction %T", instr)))
	}
	return false
}

func (in *Interp) panicString(v Val) string {
	switch x := v.(type) {
	case Iface:
		if x.T == nil {
			return "panic(nil)"
		}
		if s, ok := x.V.(Str); ok {
			if s.B == nil {
				return s.S
			}
		}
		// error value: try calling Error()
		if in.W != nil {
			if m := in.errorString(x); m != "" {
				return m
			}
		}
		return fmt.Sprintf("panic(%v)", x.T)
	case Str:
		return x.S
	}
	return fmt.Sprintf("panic(%T)", v)
}

func (in *Interp) errorString(x Iface) (res string) {
	defer func() {
		if r := recover(); r != nil {
			if _, ok := r.(pathEnd); ok {
				panic(r)
			}
			res = ""
		}
	}()
	ms := in.W.Prog.MethodSets.MethodSet(x.T)
	for i := 0; i < ms.Len(); i++ {
		if ms.At(i).Obj().Name() == "Error" {
			f := in.W.Prog.MethodValue(ms.At(i))
			if f == nil {
				return ""
			}
			r := in.callFn(in.cur.top, f, []Val{x.V})
			if s, ok := r.(Str); ok && s.B == nil {
				return s.S
			}
		}
	}
	return ""
}

// concInt forces an integer value to a constant (forking over feasible values).
func (in *Interp) concInt(v Val) int64 {
	t := v.(*smt.Term)
	if t.IsConst() {
		return t.SVal()
	}
	u := in.Concretize(t)
	return sext64(u, t.Sort.W)
}

// ---- memory ----

func (in *Interp) load(fr *frame, addr Val) Val {
	switch p := addr.(type) {
	case *Val:
		if p == nil {
			in.goPanicStr("invalid memory address or nil pointer dereference")
		}
		return copyVal(*p)
	case BPtr:
		return in.ctx.Select((*p.Cell).(BArr).A, p.Idx)
	case unsafePtr:
		return in.load(fr, p.V)
	case EPtr:
		return in.selectFromVals(p.Elems, p.Idx)
	}
	panic(fmt.Sprintf("load through %T", addr))
}

func (in *Interp) store(fr *frame, addr Val, v Val) {
	switch p := addr.(type) {
	case *Val:
		if p == nil {
			in.goPanicStr("invalid memory address or nil pointer dereference")
		}
		storeInPlace(p, v)
	case BPtr:
		a := (*p.Cell).(BArr)
		*p.Cell = BArr{in.ctx.Store(a.A, p.Idx, v.(*smt.Term))}
	case EPtr:
		i := in.Concretize(p.Idx)
		storeInPlace(&p.Elems[i], v)
	default:
		panic(fmt.Sprintf("store through %T", addr))
	}
}

// storeInPlace assigns v to *p keeping the identity of aggregate cells (pointers
// to fields/elements taken earlier stay valid, as in Go).
func storeInPlace(p *Val, v Val) {
	switch rhs := v.(type) {
	case Struct:
		if lhs, ok := (*p).(Struct); ok && len(lhs) == len(rhs) {
			for i := range lhs {
				storeInPlace(&lhs[i], rhs[i])
			}
			return
		}
	case Arr:
		if lhs, ok := (*p).(Arr); ok && len(lhs) == len(rhs) {
			for i := range lhs {
				storeInPlace(&lhs[i], rhs[i])
			}
			return
		}
	}
	*p = copyVal(v)
}

// boundsCheck forks on idx in [0,n) and raises an index panic on the failing side.
func (in *Interp) boundsCheck(idx, n *smt.Term, what string) {
	ok := in.ctx.Bin(smt.OpULt, idx, n)
	if !in.Branch(ok) {
		in.goPanicStr(what)
	}
}

func (in *Interp) toIdx64(idx *smt.Term, t types.Type) *smt.Term {
	w := idx.Sort.W
	if w == 64 {
		return idx
	}
	_, signed, _ := intInfo(t)
	if signed {
		return in.ctx.SExt(64-w, idx)
	}
	return in.ctx.ZExt(64-w, idx)
}

func (in *Interp) indexAddr(fr *frame, x Val, idx *smt.Term, xt, it types.Type) Val {
	idx = in.toIdx64(idx, it)
	switch s := x.(type) {
	case BSlice:
		in.boundsCheck(idx, s.Len, "index out of range")
		return BPtr{s.Cell, in.ctx.Bin(smt.OpAdd, s.Off, idx)}
	case Slice:
		if !idx.IsConst() && scalarElems(s) {
			in.boundsCheck(idx, in.ctx.Const(64, uint64(len(s))), "index out of range")
			return EPtr{s, idx}
		}
		i := in.concIndex(idx, len(s))
		return &s[i]
	case *Val: // pointer to array
		if s == nil {
			in.goPanicStr("invalid memory address or nil pointer dereference")
		}
		switch a := (*s).(type) {
		case BArr:
			n := deref(xt).Underlying().(*types.Array).Len()
			in.boundsCheck(idx, in.ctx.Const(64, uint64(n)), "index out of range")
			return BPtr{s, idx}
		case Arr:
			if !idx.IsConst() && scalarElems(a) {
				in.boundsCheck(idx, in.ctx.Const(64, uint64(len(a))), "index out of range")
				return EPtr{a, idx}
			}
			i := in.concIndex(idx, len(a))
			return &a[i]
		}
	}
	panic(fmt.Sprintf("indexAddr on %T", x))
}

// EPtr is the address of element Idx (symbolic, in range) of a sequence of scalar or
// short-string cells; loads become ite chains, stores concretise the index.
type EPtr struct {
	Elems []Val
	Idx   *smt.Term
}

func scalarElems(vals []Val) bool {
	if len(vals) == 0 || len(vals) > 256 {
		return false
	}
	if _, ok := vals[0].(*smt.Term); ok {
		for _, v := range vals {
			if _, ok := v.(*smt.Term); !ok {
				return false
			}
		}
		return true
	}
	if s0, ok := vals[0].(Str); ok && s0.Len() > 0 && s0.Len() <= 8 {
		for _, v := range vals {
			if sv, ok := v.(Str); !ok || sv.Len() != s0.Len() {
				return false
			}
		}
		return true
	}
	return false
}

// concIndex checks bounds and concretises an index into a concrete-shape sequence.
func (in *Interp) concIndex(idx *smt.Term, n int) int {
	in.boundsCheck(idx, in.ctx.Const(64, uint64(n)), "index out of range")
	if idx.IsConst() {
		return int(idx.Val)
	}
	return int(in.Concretize(idx))
}

func (in *Interp) index(fr *frame, x Val, idx *smt.Term, it types.Type) Val {
	idx = in.toIdx64(idx, it)
	switch a := x.(type) {
	case Arr:
		if idx.IsConst() {
			in.boundsCheck(idx, in.ctx.Const(64, uint64(len(a))), "index out of range")
			return copyVal(a[idx.Val])
		}
		in.boundsCheck(idx, in.ctx.Const(64, uint64(len(a))), "index out of range")
		return in.selectFromVals(a, idx)
	case BArr:
		return in.ctx.Select(a.A, idx)
	case Str:
		in.boundsCheck(idx, in.ctx.Const(64, uint64(a.Len())), "index out of range")
		if idx.IsConst() {
			return in.strByte(a, int(idx.Val))
		}
		bs := in.strBytes(a)
		vs := make([]Val, len(bs))
		for i := range bs {
			vs[i] = bs[i]
		}
		return in.selectFromVals(vs, idx)
	}
	panic(fmt.Sprintf("index on %T", x))
}

// selectFromVals reads vals[idx] for a symbolic idx known to be in range: an ite
// chain when all elements are scalar terms, otherwise the index is concretised.
func (in *Interp) selectFromVals(vals []Val, idx *smt.Term) Val {
	allTerms := true
	for _, v := range vals {
		if _, ok := v.(*smt.Term); !ok {
			allTerms = false
			break
		}
	}
	if !allTerms && len(vals) > 0 {
		// array of equal-length strings: a symbolic string built byte-wise
		if s0, ok := vals[0].(Str); ok && s0.Len() > 0 && s0.Len() <= 8 {
			same := true
			for _, v := range vals {
				if sv, ok := v.(Str); !ok || sv.Len() != s0.Len() {
					same = false
					break
				}
			}
			if same {
				out := make([]*smt.Term, s0.Len())
				for b := range out {
					res := in.strByte(vals[len(vals)-1].(Str), b)
					for i := len(vals) - 2; i >= 0; i-- {
						res = in.ctx.Ite(in.ctx.Eq(idx, in.ctx.Const(64, uint64(i))), in.strByte(vals[i].(Str), b), res)
					}
					out[b] = res
				}
				return normStr(out)
			}
		}
	}
	if !allTerms || len(vals) == 0 {
		i := in.Concretize(idx)
		return copyVal(vals[i])
	}
	res := vals[len(vals)-1].(*smt.Term)
	for i := len(vals) - 2; i >= 0; i-- {
		res = in.ctx.Ite(in.ctx.Eq(idx, in.ctx.Const(64, uint64(i))), vals[i].(*smt.Term), res)
	}
	return res
}

func (in *Interp) makeSlice(fr *frame, ins *ssa.MakeSlice) Val {
	et := ins.Type().Underlying().(*types.Slice).Elem()
	ln := in.toIdx64(fr.get(ins.Len).(*smt.Term), ins.Len.Type())
	cp := in.toIdx64(fr.get(ins.Cap).(*smt.Term), ins.Cap.Type())
	c := in.ctx
	// len out of range / cap out of range panics
	okLen := c.And(c.Bin(smt.OpSLe, c.Const(64, 0), ln), c.Bin(smt.OpSLe, ln, cp), c.Bin(smt.OpSLe, cp, c.Const(64, 1<<48)))
	if !in.Branch(okLen) {
		in.goPanicStr("makeslice: len out of range")
	}
	if isByte(et) {
		cell := new(Val)
		*cell = BArr{c.ConstArr(0)}
		return BSlice{cell, c.Const(64, 0), ln, cp}
	}
	n := in.concInt(ln)
	m := in.concInt(cp)
	if m > 1<<20 {
		in.endPath("limit", "huge non-byte slice")
	}
	s := make(Slice, n, m)
	full := s[:m]
	for i := range full {
		full[i] = in.zero(et)
	}
	return s
}

func (in *Interp) sliceOp(fr *frame, ins *ssa.Slice) Val {
	c := in.ctx
	x := fr.get(ins.X)
	toT := func(v ssa.Value) *smt.Term {
		if v == nil {
			return nil
		}
		return in.toIdx64(fr.get(v).(*smt.Term), v.Type())
	}
	lo, hi, max := toT(ins.Low), toT(ins.High), toT(ins.Max)
	if lo == nil {
		lo = c.Const(64, 0)
	}
	switch s := x.(type) {
	case BSlice:
		if hi == nil {
			hi = s.Len
		}
		mx := max
		if mx == nil {
			mx = s.Cap
		}
		ok := c.And(c.Bin(smt.OpULe, lo, hi), c.Bin(smt.OpULe, hi, mx), c.Bin(smt.OpULe, mx, s.Cap))
		if !in.Branch(ok) {
			in.goPanicStr("slice bounds out of range")
		}
		if s.Cell == nil {
			return s
		}
		return BSlice{s.Cell, c.Bin(smt.OpAdd, s.Off, lo), c.Bin(smt.OpSub, hi, lo), c.Bin(smt.OpSub, mx, lo)}
	case Str:
		n := c.Const(64, uint64(s.Len()))
		if hi == nil {
			hi = n
		}
		ok := c.And(c.Bin(smt.OpULe, lo, hi), c.Bin(smt.OpULe, hi, n))
		if !in.Branch(ok) {
			in.goPanicStr("slice bounds out of range")
		}
		l, h := in.Concretize(lo), in.Concretize(hi)
		if s.B == nil {
			return Str{S: s.S[l:h]}
		}
		return normStr(s.B[l:h])
	case Slice:
		n := c.Const(64, uint64(len(s)))
		cp := c.Const(64, uint64(cap(s)))
		if hi == nil {
			hi = n
		}
		mx := max
		if mx == nil {
			mx = cp
		}
		ok := c.And(c.Bin(smt.OpULe, lo, hi), c.Bin(smt.OpULe, hi, mx), c.Bin(smt.OpULe, mx, cp))
		if !in.Branch(ok) {
			in.goPanicStr("slice bounds out of range")
		}
		l, h, m := in.Concretize(lo), in.Concretize(hi), in.Concretize(mx)
		if s == nil {
			return s
		}
		return s[l:h:m]
	case *Val: // *array
		if s == nil {
			in.goPanicStr("invalid memory address or nil pointer dereference")
		}
		at := deref(ins.X.Type()).Underlying().(*types.Array)
		n := c.Const(64, uint64(at.Len()))
		if hi == nil {
			hi = n
		}
		mx := max
		if mx == nil {
			mx = n
		}
		ok := c.And(c.Bin(smt.OpULe, lo, hi), c.Bin(smt.OpULe, hi, mx), c.Bin(smt.OpULe, mx, n))
		if !in.Branch(ok) {
			in.goPanicStr("slice bounds out of range")
		}
		switch a := (*s).(type) {
		case BArr:
			return BSlice{s, lo, c.Bin(smt.OpSub, hi, lo), c.Bin(smt.OpSub, mx, lo)}
		case Arr:
			l, h, m := in.Concretize(lo), in.Concretize(hi), in.Concretize(mx)
			return Slice(a)[l:h:m]
		}
	}
	panic(fmt.Sprintf("slice of %T", x))
}

func (in *Interp) typeAssert(fr *frame, ins *ssa.TypeAssert, x Iface) Val {
	var ok bool
	var v Val
	if it, isI := ins.AssertedType.Underlying().(*types.Interface); isI {
		if x.T != nil && in.implements(x.T, it) {
			ok, v = true, x
		} else {
			v = Iface{}
		}
	} else {
		if x.T != nil && types.Identical(x.T, ins.AssertedType) {
			ok, v = true, copyVal(x.V)
		} else {
			v = in.zero(ins.AssertedType)
		}
	}
	if ins.CommaOk {
		return Tuple{v, in.ctx.BoolC(ok)}
	}
	if !ok {
		msg := fmt.Sprintf("interface conversion: interface is %v, not %v", x.T, ins.AssertedType)
		panic(&goPanic{val: Iface{T: runtimeErrorType, V: Str{S: msg}}, msg: msg, stack: in.stackTrace()})
	}
	return v
}

func (in *Interp) implements(t types.Type, it *types.Interface) bool {
	if t == runtimeErrorType {
		for i := 0; i < it.NumMethods(); i++ {
			n := it.Method(i).Name()
			if n != "Error" && n != "RuntimeError" {
				return false
			}
		}
		return true
	}
	return types.Implements(t, it)
}
