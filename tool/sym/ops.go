package sym

import (
	"fmt"
	"go/token"
	"go/types"
	"math"
	"unicode/utf8"

	"golang.org/x/tools/go/ssa"

	"gosymx/smt"
)

func (in *Interp) unop(fr *frame, ins *ssa.UnOp, x Val) Val {
	c := in.ctx
	switch ins.Op {
	case token.MUL:
		return in.load(fr, x)
	case token.ARROW:
		return in.chanRecv(fr, x.(*Chan), ins.CommaOk, ins.X.Type().Underlying().(*types.Chan).Elem())
	case token.NOT:
		return c.Not(x.(*smt.Term))
	case token.SUB:
		switch v := x.(type) {
		case *smt.Term:
			return c.Neg(v)
		case float64:
			return -v
		}
	case token.XOR:
		return c.BNot(x.(*smt.Term))
	}
	panic(fmt.Sprintf("unop %v on %T", ins.Op, x))
}

func (in *Interp) shiftCount(y *smt.Term, yt types.Type, w int) *smt.Term {
	c := in.ctx
	_, signed, _ := intInfo(yt)
	if signed {
		neg := c.Bin(smt.OpSLt, y, c.Const(y.Sort.W, 0))
		if in.Branch(neg) {
			in.goPanicStr("negative shift amount")
		}
	}
	yw := y.Sort.W
	switch {
	case yw == w:
		return y
	case yw < w:
		return c.ZExt(w-yw, y)
	}
	// wider count: saturate
	big := c.Bin(smt.OpULe, c.Const(yw, uint64(w)), y)
	return c.Ite(big, c.Const(w, uint64(w)), c.Extract(w-1, 0, y))
}

func (in *Interp) binop(fr *frame, op token.Token, t, yt types.Type, x, y Val) Val {
	c := in.ctx
	switch a := x.(type) {
	case *smt.Term:
		if a.Sort.K == smt.KBool {
			b := y.(*smt.Term)
			switch op {
			case token.EQL:
				return c.Eq(a, b)
			case token.NEQ:
				return c.Not(c.Eq(a, b))
			case token.AND, token.LAND:
				return c.And(a, b)
			case token.OR, token.LOR:
				return c.Or(a, b)
			}
			panic("bool binop " + op.String())
		}
		b := y.(*smt.Term)
		_, signed, _ := intInfo(t)
		switch op {
		case token.ADD:
			return c.Bin(smt.OpAdd, a, b)
		case token.SUB:
			return c.Bin(smt.OpSub, a, b)
		case token.MUL:
			return c.Bin(smt.OpMul, a, b)
		case token.QUO, token.REM:
			if in.Branch(c.Eq(b, c.Const(b.Sort.W, 0))) {
				in.goPanicStr("integer divide by zero")
			}
			if op == token.QUO {
				if signed {
					return c.Bin(smt.OpSDiv, a, b)
				}
				return c.Bin(smt.OpUDiv, a, b)
			}
			if signed {
				return c.Bin(smt.OpSRem, a, b)
			}
			return c.Bin(smt.OpURem, a, b)
		case token.AND:
			return c.Bin(smt.OpBAnd, a, b)
		case token.OR:
			return c.Bin(smt.OpBOr, a, b)
		case token.XOR:
			return c.Bin(smt.OpBXor, a, b)
		case token.AND_NOT:
			return c.Bin(smt.OpBAnd, a, c.BNot(b))
		case token.SHL, token.SHR:
			cnt := in.shiftCount(b, yt, a.Sort.W)
			switch {
			case op == token.SHL:
				return c.Bin(smt.OpShl, a, cnt)
			case signed:
				return c.Bin(smt.OpAShr, a, cnt)
			}
			return c.Bin(smt.OpLShr, a, cnt)
		case token.EQL:
			return c.Eq(a, b)
		case token.NEQ:
			return c.Not(c.Eq(a, b))
		case token.LSS:
			if signed {
				return c.Bin(smt.OpSLt, a, b)
			}
			return c.Bin(smt.OpULt, a, b)
		case token.LEQ:
			if signed {
				return c.Bin(smt.OpSLe, a, b)
			}
			return c.Bin(smt.OpULe, a, b)
		case token.GTR:
			if signed {
				return c.Bin(smt.OpSLt, b, a)
			}
			return c.Bin(smt.OpULt, b, a)
		case token.GEQ:
			if signed {
				return c.Bin(smt.OpSLe, b, a)
			}
			return c.Bin(smt.OpULe, b, a)
		}
	case float64:
		b := y.(float64)
		switch op {
		case token.ADD:
			return a + b
		case token.SUB:
			return a - b
		case token.MUL:
			return a * b
		case token.QUO:
			return a / b
		case token.EQL:
			return c.BoolC(a == b)
		case token.NEQ:
			return c.BoolC(a != b)
		case token.LSS:
			return c.BoolC(a < b)
		case token.LEQ:
			return c.BoolC(a <= b)
		case token.GTR:
			return c.BoolC(a > b)
		case token.GEQ:
			return c.BoolC(a >= b)
		}
	case Str:
		b := y.(Str)
		switch op {
		case token.ADD:
			return in.strConcat(a, b)
		case token.EQL:
			return in.strEq(a, b)
		case token.NEQ:
			return c.Not(in.strEq(a, b))
		case token.LSS:
			return in.strLess(a, b)
		case token.GTR:
			return in.strLess(b, a)
		case token.LEQ:
			return c.Not(in.strLess(b, a))
		case token.GEQ:
			return c.Not(in.strLess(a, b))
		}
	}
	switch op {
	case token.EQL:
		return in.equal(t, x, y)
	case token.NEQ:
		return c.Not(in.equal(t, x, y))
	}
	panic(fmt.Sprintf("binop %v on %T,%T", op, x, y))
}

// equal implements == for non-scalar comparable values.
func (in *Interp) equal(t types.Type, x, y Val) *smt.Term {
	c := in.ctx
	switch a := x.(type) {
	case *smt.Term:
		b, ok := y.(*smt.Term)
		if !ok || a.Sort != b.Sort {
			return c.False
		}
		return c.Eq(a, b)
	case float64:
		b, ok := y.(float64)
		return c.BoolC(ok && a == b)
	case Str:
		b, ok := y.(Str)
		if !ok {
			return c.False
		}
		return in.strEq(a, b)
	case *Val:
		b, ok := y.(*Val)
		return c.BoolC(ok && a == b)
	case BPtr:
		b, ok := y.(BPtr)
		if !ok || a.Cell != b.Cell {
			return c.False
		}
		return c.Eq(a.Idx, b.Idx)
	case *Map:
		b, ok := y.(*Map)
		return c.BoolC(ok && a == b)
	case *Chan:
		b, ok := y.(*Chan)
		return c.BoolC(ok && a == b)
	case *ssa.Function:
		switch b := y.(type) {
		case *ssa.Function:
			return c.BoolC(a == b)
		}
		return c.False
	case *Closure:
		b, ok := y.(*Closure)
		return c.BoolC(ok && a == b)
	case *nativeFn:
		b, ok := y.(*nativeFn)
		return c.BoolC(ok && a == b)
	case Iface:
		b := y.(Iface)
		if a.T == nil || b.T == nil {
			return c.BoolC(a.T == nil && b.T == nil)
		}
		if !types.Identical(a.T, b.T) {
			return c.False
		}
		return in.equal(a.T, a.V, b.V)
	case Struct:
		b := y.(Struct)
		cs := make([]*smt.Term, 0, len(a))
		for i := range a {
			cs = append(cs, in.equal(nil, a[i], b[i]))
		}
		return c.And(cs...)
	case Arr:
		b := y.(Arr)
		cs := make([]*smt.Term, 0, len(a))
		for i := range a {
			cs = append(cs, in.equal(nil, a[i], b[i]))
		}
		return c.And(cs...)
	case BArr:
		b := y.(BArr)
		if a.A == b.A {
			return c.True
		}
		n := 0
		if t != nil {
			if at, ok := t.Underlying().(*types.Array); ok {
				n = int(at.Len())
			}
		}
		if n == 0 || n > 64 {
			panic(unsupported("comparison of byte arrays"))
		}
		cs := make([]*smt.Term, 0, n)
		for i := 0; i < n; i++ {
			k := c.Const(64, uint64(i))
			cs = append(cs, c.Eq(c.Select(a.A, k), c.Select(b.A, k)))
		}
		return c.And(cs...)
	case Slice:
		// only comparison with nil is legal
		b, _ := y.(Slice)
		return c.BoolC(a == nil && b == nil)
	case BSlice:
		b := y.(BSlice)
		return c.BoolC(a.Cell == nil && b.Cell == nil)
	case unsafePtr:
		b, ok := y.(unsafePtr)
		if !ok {
			return c.False
		}
		if a.V == nil || b.V == nil {
			return c.BoolC(a.V == nil && b.V == nil)
		}
		return in.equal(nil, a.V, b.V)
	case nil:
		return c.BoolC(y == nil)
	}
	panic(fmt.Sprintf("equal on %T", x))
}

func (in *Interp) conv(fr *frame, dst, src types.Type, x Val) Val {
	c := in.ctx
	ud, us := dst.Underlying(), src.Underlying()
	// identical underlying: no-op
	switch v := x.(type) {
	case *smt.Term:
		if v.Sort.K == smt.KBool {
			return v
		}
		sw, ssgn, _ := intInfo(us)
		if dw, _, ok := intInfo(ud); ok {
			switch {
			case dw == sw:
				return v
			case dw < sw:
				return c.Extract(dw-1, 0, v)
			case ssgn:
				return c.SExt(dw-sw, v)
			default:
				return c.ZExt(dw-sw, v)
			}
		}
		if isFloat(ud) {
			k := in.concInt(v)
			if !ssgn {
				return float64(uint64(k) & maskW(sw))
			}
			return float64(k)
		}
		if isString(ud) {
			k := in.concInt(v)
			return Str{S: string(rune(k))}
		}
		if b, ok := ud.(*types.Basic); ok && b.Kind() == types.UnsafePointer {
			return unsafePtr{V: v}
		}
	case float64:
		if dw, dsgn, ok := intInfo(ud); ok {
			if dsgn {
				return c.Const(dw, uint64(int64(v)))
			}
			return c.Const(dw, uint64(v))
		}
		if isFloat(ud) {
			if b := ud.(*types.Basic); b.Kind() == types.Float32 {
				return float64(float32(v))
			}
			return v
		}
	case Str:
		if isString(ud) {
			return v
		}
		if sl, ok := ud.(*types.Slice); ok {
			if isByte(sl.Elem()) {
				return in.bytesOfStr(v)
			}
			// []rune
			if v.B != nil {
				panic(unsupported("[]rune of symbolic string"))
			}
			rs := []rune(v.S)
			out := make(Slice, len(rs))
			for i, r := range rs {
				out[i] = c.Const(32, uint64(r))
			}
			return out
		}
	case BSlice:
		if isString(ud) {
			return in.strOfBytes(v)
		}
		if _, ok := ud.(*types.Slice); ok {
			return v
		}
	case Slice:
		if isString(ud) { // []rune -> string
			var rs []rune
			for _, e := range v {
				rs = append(rs, rune(in.concInt(e)))
			}
			return Str{S: string(rs)}
		}
		return v
	case *Val:
		if b, ok := ud.(*types.Basic); ok && b.Kind() == types.UnsafePointer {
			return unsafePtr{V: v}
		}
		return v
	case unsafePtr:
		if _, ok := ud.(*types.Pointer); ok {
			if v.V == nil {
				return (*Val)(nil)
			}
			return v.V
		}
		if b, ok := ud.(*types.Basic); ok && b.Kind() == types.UnsafePointer {
			return v
		}
	case BPtr:
		if b, ok := ud.(*types.Basic); ok && b.Kind() == types.UnsafePointer {
			return unsafePtr{V: v}
		}
		return v
	}
	panic(unsupported(fmt.Sprintf("conversion %v -> %v (%T)", src, dst, x)))
}

func maskW(w int) uint64 {
	if w >= 64 {
		return ^uint64(0)
	}
	return (uint64(1) << uint(w)) - 1
}

// bytesOfStr allocates a fresh []byte with the string's content.
func (in *Interp) bytesOfStr(s Str) BSlice {
	c := in.ctx
	cell := new(Val)
	a := c.ConstArr(0)
	n := s.Len()
	for i := 0; i < n; i++ {
		a = c.Store(a, c.Const(64, uint64(i)), in.strByte(s, i))
	}
	*cell = BArr{a}
	ln := c.Const(64, uint64(n))
	return BSlice{cell, c.Const(64, 0), ln, ln}
}

// strOfBytes converts a []byte to a string (length is concretised).
func (in *Interp) strOfBytes(b BSlice) Str {
	if b.Cell == nil {
		return Str{}
	}
	n := in.Concretize(b.Len)
	if n > 1<<16 {
		in.endPath("limit", "string(bytes) too long to concretise")
	}
	a := (*b.Cell).(BArr).A
	out := make([]*smt.Term, n)
	for i := range out {
		out[i] = in.ctx.Select(a, in.ctx.Bin(smt.OpAdd, b.Off, in.ctx.Const(64, uint64(i))))
	}
	return normStr(out)
}

// ---- maps ----

// mapFind locates key k; for symbolic keys it forks over "equals existing key i" / none.
func (in *Interp) mapFind(m *Map, k Val) (int, string, bool) {
	if ks, ok := keyString(k); ok {
		// concrete key: but existing keys may be symbolic; check those first
		for _, i := range m.live() {
			if _, conc := keyString(m.keys[i]); !conc {
				if in.Branch(in.equal(nil, m.keys[i], k)) {
					return i, "", true
				}
			}
		}
		if i, ok := m.index[ks]; ok {
			return i, ks, true
		}
		return -1, ks, false
	}
	for _, i := range m.live() {
		if in.Branch(in.equal(nil, m.keys[i], k)) {
			return i, "", true
		}
	}
	return -1, "", false
}

func (in *Interp) mapSet(m *Map, k, v Val) {
	i, ks, found := in.mapFind(m, k)
	if found {
		m.vals[i] = v
		return
	}
	if ks == "" {
		in.nsymkey++
		ks = fmt.Sprintf("\x00sym%d", in.nsymkey)
	}
	m.setConc(ks, k, v)
}

func (in *Interp) mapDelete(m *Map, k Val) {
	if m == nil {
		return
	}
	i, _, found := in.mapFind(m, k)
	if !found {
		return
	}
	for ks, j := range m.index {
		if j == i {
			m.delConc(ks)
			return
		}
	}
}

func (in *Interp) lookup(fr *frame, ins *ssa.Lookup) Val {
	x := fr.get(ins.X)
	switch m := x.(type) {
	case *Map:
		vt := ins.X.Type().Underlying().(*types.Map).Elem()
		var v Val
		ok := false
		if m != nil {
			if i, _, found := in.mapFind(m, fr.get(ins.Index)); found {
				v, ok = copyVal(m.vals[i]), true
			}
		}
		if !ok {
			v = in.zero(vt)
		}
		if ins.CommaOk {
			return Tuple{v, in.ctx.BoolC(ok)}
		}
		return v
	case Str:
		return in.index(fr, m, fr.get(ins.Index).(*smt.Term), ins.Index.Type())
	}
	panic(fmt.Sprintf("lookup on %T", x))
}

// ---- range ----

type iter interface {
	next(in *Interp) Val
}

type mapIter struct {
	m     *Map
	order []int
	i     int
	kt, vt types.Type
}

func (it *mapIter) next(in *Interp) Val {
	for it.i < len(it.order) {
		j := it.order[it.i]
		it.i++
		if j < len(it.m.dead) && !it.m.dead[j] {
			return Tuple{in.ctx.True, it.m.keys[j], copyVal(it.m.vals[j])}
		}
	}
	return Tuple{in.ctx.False, nil, nil}
}

type strIter struct {
	s Str
	i int
}

func (it *strIter) next(in *Interp) Val {
	c := in.ctx
	if it.i >= it.s.Len() {
		return Tuple{c.False, c.Const(64, 0), c.Const(32, 0)}
	}
	if it.s.B == nil {
		r, sz := utf8.DecodeRuneInString(it.s.S[it.i:])
		k := it.i
		it.i += sz
		return Tuple{c.True, c.Const(64, uint64(k)), c.Const(32, uint64(r))}
	}
	// symbolic bytes: handle ASCII symbolically, fork on the high bit
	b := it.s.B[it.i]
	if in.Branch(c.Bin(smt.OpULt, b, c.Const(8, 0x80))) {
		k := it.i
		it.i++
		return Tuple{c.True, c.Const(64, uint64(k)), c.ZExt(24, b)}
	}
	panic(unsupported("range over symbolic non-ASCII string"))
}

func (in *Interp) rangeIter(fr *frame, x Val, t types.Type) Val {
	switch v := x.(type) {
	case *Map:
		if v == nil {
			return &mapIter{m: newMap()}
		}
		order := v.live()
		if in.W.Cfg.MapOrder == "reverse" {
			for i, j := 0, len(order)-1; i < j; i, j = i+1, j-1 {
				order[i], order[j] = order[j], order[i]
			}
		}
		return &mapIter{m: v, order: order}
	case Str:
		return &strIter{s: v}
	}
	panic(fmt.Sprintf("range over %T", x))
}

// ---- builtins ----

func (in *Interp) callBuiltin(fr *frame, fn *ssa.Builtin, args []Val) Val {
	c := in.ctx
	switch fn.Name() {
	case "append":
		return in.appendOp(fr, fn, args)
	case "copy":
		return in.copyOp(args[0], args[1])
	case "len":
		switch x := args[0].(type) {
		case Str:
			return c.Const(64, uint64(x.Len()))
		case BSlice:
			return x.Len
		case Slice:
			return c.Const(64, uint64(len(x)))
		case Arr:
			return c.Const(64, uint64(len(x)))
		case *Map:
			if x == nil {
				return c.Const(64, 0)
			}
			return c.Const(64, uint64(x.Len()))
		case *Chan:
			if x == nil {
				return c.Const(64, 0)
			}
			return c.Const(64, uint64(len(x.buf)))
		case *Val: // *array
			if x == nil {
				in.goPanicStr("nil pointer dereference")
			}
			switch a := (*x).(type) {
			case Arr:
				return c.Const(64, uint64(len(a)))
			}
			at := deref(fn.Type().(*types.Signature).Params().At(0).Type()).Underlying().(*types.Array)
			return c.Const(64, uint64(at.Len()))
		case BArr:
			at := fn.Type().(*types.Signature).Params().At(0).Type().Underlying().(*types.Array)
			return c.Const(64, uint64(at.Len()))
		}
	case "cap":
		switch x := args[0].(type) {
		case BSlice:
			return x.Cap
		case Slice:
			return c.Const(64, uint64(cap(x)))
		case Arr:
			return c.Const(64, uint64(len(x)))
		case *Chan:
			if x == nil {
				return c.Const(64, 0)
			}
			return c.Const(64, uint64(x.cap))
		}
	case "delete":
		in.mapDelete(args[0].(*Map), args[1])
		return nil
	case "clear":
		switch x := args[0].(type) {
		case *Map:
			if x != nil {
				x.clear()
			}
		case Slice:
			et := fn.Type().(*types.Signature).Params().At(0).Type().Underlying().(*types.Slice).Elem()
			for i := range x {
				x[i] = in.zero(et)
			}
		case BSlice:
			if x.Cell != nil {
				n := in.Concretize(x.Len)
				a := (*x.Cell).(BArr).A
				for i := uint64(0); i < n; i++ {
					a = c.Store(a, c.Bin(smt.OpAdd, x.Off, c.Const(64, i)), c.Const(8, 0))
				}
				*x.Cell = BArr{a}
			}
		}
		return nil
	case "close":
		in.chanClose(args[0].(*Chan))
		return nil
	case "panic":
		panic(&goPanic{val: args[0], msg: in.panicString(args[0]), stack: in.stackTrace()})
	case "recover":
		return in.doRecover(fr)
	case "print", "println":
		return nil
	case "min", "max":
		res := args[0]
		for _, a := range args[1:] {
			switch x := res.(type) {
			case *smt.Term:
				y := a.(*smt.Term)
				_, signed, _ := intInfo(fn.Type().(*types.Signature).Params().At(0).Type())
				op := smt.OpULt
				if signed {
					op = smt.OpSLt
				}
				var lt *smt.Term
				if fn.Name() == "min" {
					lt = c.Bin(op, y, x)
				} else {
					lt = c.Bin(op, x, y)
				}
				res = c.Ite(lt, y, x)
			case float64:
				y := a.(float64)
				if fn.Name() == "min" {
					res = math.Min(x, y)
				} else {
					res = math.Max(x, y)
				}
			case Str:
				y := a.(Str)
				lt := in.strLess(y, x)
				if fn.Name() == "max" {
					lt = in.strLess(x, y)
				}
				if in.Branch(lt) {
					res = y
				}
			}
		}
		return res
	case "ssa:wrapnilchk":
		if p, ok := args[0].(*Val); ok && p == nil {
			in.goPanicStr("value method called using nil pointer")
		}
		return args[0]
	}
	panic(unsupported(fmt.Sprintf("builtin %s(%T)", fn.Name(), args[0])))
}

func (in *Interp) doRecover(caller *frame) Val {
	if caller != nil && caller.caller != nil && caller.caller.panicking {
		caller.caller.panicking = false
		p := caller.caller.panicVal
		caller.caller.panicVal = nil
		if gp, ok := p.(*goPanic); ok {
			if iv, isI := gp.val.(Iface); isI {
				return iv
			}
			return Iface{T: types.Typ[types.String], V: Str{S: gp.msg}}
		}
	}
	return Iface{}
}

// growCap mimics runtime.growslice's capacity policy (without size-class rounding
// for non-byte elements).
func growCap(oldCap, needed int) int {
	newcap := oldCap
	double := newcap + newcap
	if needed > double {
		return needed
	}
	const threshold = 256
	if oldCap < threshold {
		return double
	}
	for {
		newcap += (newcap + 3*threshold) >> 2
		if uint(newcap) >= uint(needed) {
			break
		}
	}
	return newcap
}

var sizeClasses = []int{0, 8, 16, 24, 32, 48, 64, 80, 96, 112, 128, 144, 160, 176, 192, 208, 224, 240, 256, 288, 320, 352, 384, 416, 448, 480, 512, 576, 640, 704, 768, 896, 1024, 1152, 1280, 1408, 1536, 1792, 2048, 2304, 2688, 3072, 3200, 3456, 4096, 4864, 5376, 6144, 6528, 6784, 6912, 8192, 9472, 9728, 10240, 10880, 12288, 13568, 14336, 16384, 18432, 19072, 20480, 21760, 24576, 27264, 28672, 32768}

func roundUpSize(n int) int {
	if n <= 32768 {
		for _, s := range sizeClasses {
			if s >= n {
				return s
			}
		}
	}
	return (n + 8191) &^ 8191
}

func (in *Interp) appendOp(fr *frame, fn *ssa.Builtin, args []Val) Val {
	c := in.ctx
	switch s := args[0].(type) {
	case BSlice:
		var addLen *smt.Term
		var srcCell *Val
		var srcOff *smt.Term
		var strSrc *Str
		switch t := args[1].(type) {
		case BSlice:
			addLen, srcCell, srcOff = t.Len, t.Cell, t.Off
		case Str:
			addLen = c.Const(64, uint64(t.Len()))
			strSrc = &t
		default:
			panic(fmt.Sprintf("append bytes from %T", args[1]))
		}
		if addLen.IsConst() && addLen.Val == 0 {
			return s
		}
		newLen := c.Bin(smt.OpAdd, s.Len, addLen)
		fits := c.Bin(smt.OpULe, newLen, s.Cap)
		if s.Cell != nil && in.Branch(fits) {
			in.writeBytes(s.Cell, c.Bin(smt.OpAdd, s.Off, s.Len), srcCell, srcOff, strSrc, addLen)
			return BSlice{s.Cell, s.Off, newLen, s.Cap}
		}
		// grow: new object; capacity per runtime policy when concrete, else exactly newLen
		var newCap *smt.Term
		if s.Cap.IsConst() && newLen.IsConst() {
			newCap = c.Const(64, uint64(roundUpSize(growCap(int(s.Cap.Val), int(newLen.Val)))))
		} else {
			newCap = newLen
		}
		cell := new(Val)
		a := c.ConstArr(0)
		*cell = BArr{a}
		if s.Cell != nil {
			in.writeBytes(cell, c.Const(64, 0), s.Cell, s.Off, nil, s.Len)
		}
		in.writeBytes(cell, s.Len, srcCell, srcOff, strSrc, addLen)
		return BSlice{cell, c.Const(64, 0), newLen, newCap}
	case Slice:
		t, _ := args[1].(Slice)
		if len(t) == 0 {
			return s
		}
		n := len(s) + len(t)
		if n <= cap(s) {
			out := s[:n]
			for i, v := range t {
				out[len(s)+i] = copyVal(v)
			}
			return out
		}
		nc := growCap(cap(s), n)
		out := make(Slice, n, nc)
		copy(out, s)
		for i, v := range t {
			out[len(s)+i] = copyVal(v)
		}
		et := fn.Type().(*types.Signature).Params().At(0).Type().Underlying().(*types.Slice).Elem()
		full := out[:nc]
		for i := n; i < nc; i++ {
			full[i] = in.zero(et)
		}
		return out
	}
	panic(fmt.Sprintf("append to %T", args[0]))
}

// writeBytes copies n bytes from (srcCell,srcOff) or from a string into dst at doff.
func (in *Interp) writeBytes(dst *Val, doff *smt.Term, srcCell *Val, srcOff *smt.Term, str *Str, n *smt.Term) {
	c := in.ctx
	da := (*dst).(BArr).A
	if str != nil {
		for i := 0; i < str.Len(); i++ {
			da = c.Store(da, c.Bin(smt.OpAdd, doff, c.Const(64, uint64(i))), in.strByte(*str, i))
		}
		*dst = BArr{da}
		return
	}
	if srcCell == nil {
		return
	}
	sa := (*srcCell).(BArr).A
	*dst = BArr{in.copyArr(da, sa, doff, srcOff, n)}
}

// copyArr picks the copy encoding: unrolled for small constant counts, guarded
// unrolling for small bounded symbolic counts, array lambda otherwise.
func (in *Interp) copyArr(da, sa, doff, soff, n *smt.Term) *smt.Term {
	c := in.ctx
	if n.IsConst() {
		return c.Copy(da, sa, doff, soff, n)
	}
	if in.W.Cfg.NoLambda {
		if _, hi, ok := smtURange(n); ok && hi <= 64 {
			return c.CopyGuarded(da, sa, doff, soff, n, int(hi))
		}
	}
	return c.Copy(da, sa, doff, soff, n)
}

func smtURange(t *smt.Term) (uint64, uint64, bool) { return smt.URange(t) }

func (in *Interp) copyOp(dst, src Val) Val {
	c := in.ctx
	switch d := dst.(type) {
	case BSlice:
		var n *smt.Term
		switch s := src.(type) {
		case BSlice:
			lt := c.Bin(smt.OpULt, s.Len, d.Len)
			n = c.Ite(lt, s.Len, d.Len)
			if d.Cell == nil || s.Cell == nil {
				return n
			}
			da := (*d.Cell).(BArr).A
			sa := (*s.Cell).(BArr).A
			*d.Cell = BArr{in.copyArr(da, sa, d.Off, s.Off, n)}
			return n
		case Str:
			// copy as many bytes as fit: requires concrete count
			sl := c.Const(64, uint64(s.Len()))
			lt := c.Bin(smt.OpULt, sl, d.Len)
			n = c.Ite(lt, sl, d.Len)
			k := in.Concretize(n)
			if d.Cell == nil {
				return c.Const(64, k)
			}
			da := (*d.Cell).(BArr).A
			for i := uint64(0); i < k; i++ {
				da = c.Store(da, c.Bin(smt.OpAdd, d.Off, c.Const(64, i)), in.strByte(s, int(i)))
			}
			*d.Cell = BArr{da}
			return c.Const(64, k)
		}
	case Slice:
		s, _ := src.(Slice)
		n := len(d)
		if len(s) < n {
			n = len(s)
		}
		// memmove semantics
		tmp := make([]Val, n)
		for i := 0; i < n; i++ {
			tmp[i] = copyVal(s[i])
		}
		copy(d, tmp)
		return c.Const(64, uint64(n))
	}
	panic(fmt.Sprintf("copy(%T,%T)", dst, src))
}
