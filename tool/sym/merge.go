package sym

import (
	"go/token"
	"go/types"

	"golang.org/x/tools/go/ssa"

	"gosymx/smt"
)

// pureArm: a block with one predecessor that only computes scalar values and jumps on.
func pureArm(b *ssa.BasicBlock) bool {
	if len(b.Preds) != 1 || len(b.Succs) != 1 {
		return false
	}
	for i, ins := range b.Instrs {
		switch x := ins.(type) {
		case *ssa.Jump:
			return i == len(b.Instrs)-1
		case *ssa.DebugRef, *ssa.ChangeType:
		case *ssa.BinOp:
			if x.Op == token.QUO || x.Op == token.REM || x.Op == token.SHL || x.Op == token.SHR {
				return false
			}
			if _, ok := x.X.Type().Underlying().(*types.Interface); ok {
				return false
			}
		case *ssa.UnOp:
			if x.Op != token.NOT && x.Op != token.SUB && x.Op != token.XOR {
				return false
			}
		case *ssa.Convert:
			if _, _, ok := intInfo(x.Type()); !ok {
				return false
			}
			if _, _, ok := intInfo(x.X.Type()); !ok {
				return false
			}
		default:
			return false
		}
	}
	return false
}

// tryMerge turns short-circuit (a && b, a || b) and pure diamonds on a symbolic
// condition into ite terms instead of forking the path.
func (fr *frame) tryMerge(ins *ssa.If, c *smt.Term) bool {
	if fr.in.W.Cfg.NoMerge {
		return false
	}
	b := fr.block
	s0, s1 := b.Succs[0], b.Succs[1]
	var join *ssa.BasicBlock
	var tPred, fPred *ssa.BasicBlock // predecessor of join on the true / false side
	var arms []*ssa.BasicBlock
	switch {
	case s0 != s1 && pureArm(s0) && s0.Succs[0] == s1:
		join, tPred, fPred, arms = s1, s0, b, []*ssa.BasicBlock{s0}
	case s0 != s1 && pureArm(s1) && s1.Succs[0] == s0:
		join, tPred, fPred, arms = s0, b, s1, []*ssa.BasicBlock{s1}
	case s0 != s1 && pureArm(s0) && pureArm(s1) && s0.Succs[0] == s1.Succs[0]:
		join, tPred, fPred, arms = s0.Succs[0], s0, s1, []*ssa.BasicBlock{s0, s1}
	default:
		return false
	}
	nphi := 0
	for _, x := range join.Instrs {
		if _, ok := x.(*ssa.Phi); ok {
			nphi++
		} else {
			break
		}
	}
	if nphi == 0 {
		return false
	}
	ti, fi := -1, -1
	for i, p := range join.Preds {
		if p == tPred {
			ti = i
		}
		if p == fPred {
			fi = i
		}
	}
	if ti < 0 || fi < 0 || ti == fi {
		return false
	}
	for i := 0; i < nphi; i++ {
		ph := join.Instrs[i].(*ssa.Phi)
		if _, _, ok := intInfo(ph.Type()); !ok && !isBool(ph.Type()) {
			return false
		}
	}
	for _, arm := range arms {
		for _, x := range arm.Instrs {
			if _, ok := x.(*ssa.Jump); ok {
				break
			}
			fr.in.steps++
			fr.visit(x)
		}
	}
	merged := make([]Val, nphi)
	for i := 0; i < nphi; i++ {
		ph := join.Instrs[i].(*ssa.Phi)
		tv, ok1 := fr.get(ph.Edges[ti]).(*smt.Term)
		fv, ok2 := fr.get(ph.Edges[fi]).(*smt.Term)
		if !ok1 || !ok2 || tv.Sort != fv.Sort {
			return false
		}
		merged[i] = fr.in.ctx.Ite(c, tv, fv)
	}
	fr.merged = merged
	fr.prevBlock, fr.block = tPred, join
	return true
}
