package sym

import (
	"fmt"
	"go/types"
	"strings"

	"golang.org/x/tools/go/ssa"

	"gosymx/smt"
)

const repoMod = "github.com/zishang520/engine.io/v2"

func (e *Engine) reg(name string, m ModelFn) { e.models[name] = m }

// fieldCell returns the cell of the field called name in the struct *p points to.
func fieldCell(p *Val, recvT types.Type, name string) *Val {
	st := deref(recvT).Underlying().(*types.Struct)
	for i := 0; i < st.NumFields(); i++ {
		if st.Field(i).Name() == name {
			return &((*p).(Struct))[i]
		}
	}
	panic("no field " + name + " in " + recvT.String())
}

func recvT(fn *ssa.Function) types.Type { return fn.Signature.Recv().Type() }

func nilCheck(in *Interp, p Val) *Val {
	q, _ := p.(*Val)
	if q == nil {
		in.goPanicStr("invalid memory address or nil pointer dereference")
	}
	return q
}

func registerModels(e *Engine) {
	noop := func(in *Interp, _ *frame, fn *ssa.Function, args []Val) Val {
		return in.zeroResults(fn)
	}
	// ---- sync ----
	e.reg("(*sync.Mutex).Lock", func(in *Interp, _ *frame, fn *ssa.Function, a []Val) Val {
		in.lock(nilCheck(in, a[0]), "Mutex")
		return nil
	})
	e.reg("(*sync.Mutex).Unlock", func(in *Interp, _ *frame, fn *ssa.Function, a []Val) Val {
		in.unlock(nilCheck(in, a[0]))
		return nil
	})
	e.reg("(*sync.Mutex).TryLock", func(in *Interp, _ *frame, fn *ssa.Function, a []Val) Val {
		return in.ctx.BoolC(in.tryLock(nilCheck(in, a[0])))
	})
	e.reg("(*sync.RWMutex).Lock", func(in *Interp, _ *frame, fn *ssa.Function, a []Val) Val {
		in.lock(nilCheck(in, a[0]), "RWMutex")
		return nil
	})
	e.reg("(*sync.RWMutex).Unlock", func(in *Interp, _ *frame, fn *ssa.Function, a []Val) Val {
		in.unlock(nilCheck(in, a[0]))
		return nil
	})
	e.reg("(*sync.RWMutex).RLock", func(in *Interp, _ *frame, fn *ssa.Function, a []Val) Val {
		in.rlock(nilCheck(in, a[0]))
		return nil
	})
	e.reg("(*sync.RWMutex).RUnlock", func(in *Interp, _ *frame, fn *ssa.Function, a []Val) Val {
		in.runlock(nilCheck(in, a[0]))
		return nil
	})
	e.reg("(*sync.Once).Do", func(in *Interp, fr *frame, fn *ssa.Function, a []Val) Val {
		p := nilCheck(in, a[0])
		key := fmt.Sprintf("once%p", p)
		if in.side[key] != nil {
			return nil
		}
		// Go's Once holds its mutex while f runs: a re-entrant Do deadlocks.
		in.lock(p, "Once")
		defer in.unlock(p)
		if in.side[key] != nil {
			return nil
		}
		defer func() { in.side[key] = true }()
		in.call(fr, a[1], nil)
		return nil
	})
	// sync.Pool: Get may return any item previously Put, or a new one.  The model hands back
	// the most recently Put item (what the runtime does on one P): the choice that exposes code
	// which keeps using an item after putting it back.
	e.reg("(*sync.Pool).Get", func(in *Interp, fr *frame, fn *ssa.Function, a []Val) Val {
		p := nilCheck(in, a[0])
		key := fmt.Sprintf("pool%p", p)
		if items, _ := in.side[key].([]Val); len(items) > 0 {
			v := items[len(items)-1]
			in.side[key] = items[:len(items)-1]
			return v
		}
		nf := *fieldCell(p, recvT(fn), "New")
		if f, ok := nf.(*ssa.Function); ok && f == nil {
			return Iface{}
		}
		return in.call(fr, nf, nil)
	})
	e.reg("(*sync.Pool).Put", func(in *Interp, fr *frame, fn *ssa.Function, a []Val) Val {
		p := nilCheck(in, a[0])
		key := fmt.Sprintf("pool%p", p)
		items, _ := in.side[key].([]Val)
		in.side[key] = append(items, a[1])
		return nil
	})
	e.reg("(*sync.WaitGroup).Add", func(in *Interp, _ *frame, fn *ssa.Function, a []Val) Val {
		key := fmt.Sprintf("wg%p", a[0].(*Val))
		n, _ := in.side[key].(int64)
		n += in.concInt(a[1])
		in.side[key] = n
		if n == 0 {
			in.wakeBlocked()
		}
		return nil
	})
	e.reg("(*sync.WaitGroup).Done", func(in *Interp, _ *frame, fn *ssa.Function, a []Val) Val {
		key := fmt.Sprintf("wg%p", a[0].(*Val))
		n, _ := in.side[key].(int64)
		n--
		in.side[key] = n
		in.wakeBlocked()
		return nil
	})
	e.reg("(*sync.WaitGroup).Wait", func(in *Interp, _ *frame, fn *ssa.Function, a []Val) Val {
		key := fmt.Sprintf("wg%p", a[0].(*Val))
		for {
			n, _ := in.side[key].(int64)
			if n <= 0 {
				return nil
			}
			in.block("WaitGroup.Wait")
		}
	})

	// ---- sync/atomic typed values ----
	for _, tn := range []string{"Int32", "Int64", "Uint32", "Uint64", "Uintptr"} {
		tn := tn
		pre := "(*sync/atomic." + tn + ")."
		e.reg(pre+"Load", func(in *Interp, _ *frame, fn *ssa.Function, a []Val) Val {
			return *fieldCell(nilCheck(in, a[0]), recvT(fn), "v")
		})
		e.reg(pre+"Store", func(in *Interp, _ *frame, fn *ssa.Function, a []Val) Val {
			*fieldCell(nilCheck(in, a[0]), recvT(fn), "v") = a[1]
			return nil
		})
		e.reg(pre+"Swap", func(in *Interp, _ *frame, fn *ssa.Function, a []Val) Val {
			c := fieldCell(nilCheck(in, a[0]), recvT(fn), "v")
			old := *c
			*c = a[1]
			return old
		})
		e.reg(pre+"Add", func(in *Interp, _ *frame, fn *ssa.Function, a []Val) Val {
			c := fieldCell(nilCheck(in, a[0]), recvT(fn), "v")
			*c = in.ctx.Bin(smt.OpAdd, (*c).(*smt.Term), a[1].(*smt.Term))
			return *c
		})
		e.reg(pre+"CompareAndSwap", func(in *Interp, _ *frame, fn *ssa.Function, a []Val) Val {
			c := fieldCell(nilCheck(in, a[0]), recvT(fn), "v")
			if in.Branch(in.ctx.Eq((*c).(*smt.Term), a[1].(*smt.Term))) {
				*c = a[2]
				return in.ctx.True
			}
			return in.ctx.False
		})
	}
	e.reg("(*sync/atomic.Bool).Load", func(in *Interp, _ *frame, fn *ssa.Function, a []Val) Val {
		v := (*fieldCell(nilCheck(in, a[0]), recvT(fn), "v")).(*smt.Term)
		return in.ctx.Not(in.ctx.Eq(v, in.ctx.Const(32, 0)))
	})
	b2u := func(in *Interp, b Val) *smt.Term {
		return in.ctx.Ite(b.(*smt.Term), in.ctx.Const(32, 1), in.ctx.Const(32, 0))
	}
	e.reg("(*sync/atomic.Bool).Store", func(in *Interp, _ *frame, fn *ssa.Function, a []Val) Val {
		*fieldCell(nilCheck(in, a[0]), recvT(fn), "v") = b2u(in, a[1])
		return nil
	})
	e.reg("(*sync/atomic.Bool).Swap", func(in *Interp, _ *frame, fn *ssa.Function, a []Val) Val {
		c := fieldCell(nilCheck(in, a[0]), recvT(fn), "v")
		old := (*c).(*smt.Term)
		*c = b2u(in, a[1])
		return in.ctx.Not(in.ctx.Eq(old, in.ctx.Const(32, 0)))
	})
	e.reg("(*sync/atomic.Bool).CompareAndSwap", func(in *Interp, _ *frame, fn *ssa.Function, a []Val) Val {
		c := fieldCell(nilCheck(in, a[0]), recvT(fn), "v")
		cur := in.ctx.Not(in.ctx.Eq((*c).(*smt.Term), in.ctx.Const(32, 0)))
		if in.Branch(in.ctx.Eq(cur, a[1].(*smt.Term))) {
			*c = b2u(in, a[2])
			return in.ctx.True
		}
		return in.ctx.False
	})
	// atomic.Value
	e.reg("(*sync/atomic.Value).Load", func(in *Interp, _ *frame, fn *ssa.Function, a []Val) Val {
		return *fieldCell(nilCheck(in, a[0]), recvT(fn), "v")
	})
	e.reg("(*sync/atomic.Value).Store", func(in *Interp, _ *frame, fn *ssa.Function, a []Val) Val {
		if a[1].(Iface).T == nil {
			panic(&goPanic{msg: "sync/atomic: store of nil value into Value", val: Str{S: "sync/atomic: store of nil value into Value"}})
		}
		*fieldCell(nilCheck(in, a[0]), recvT(fn), "v") = a[1]
		return nil
	})
	e.reg("(*sync/atomic.Value).Swap", func(in *Interp, _ *frame, fn *ssa.Function, a []Val) Val {
		c := fieldCell(nilCheck(in, a[0]), recvT(fn), "v")
		old := *c
		*c = a[1]
		return old
	})
	e.reg("(*sync/atomic.Value).CompareAndSwap", func(in *Interp, _ *frame, fn *ssa.Function, a []Val) Val {
		c := fieldCell(nilCheck(in, a[0]), recvT(fn), "v")
		if in.Branch(in.equal(nil, *c, a[1])) {
			*c = a[2]
			return in.ctx.True
		}
		return in.ctx.False
	})
	// atomic.Pointer[T] (matched through Origin())
	ptrLoad := func(in *Interp, c *Val) Val {
		if u, ok := (*c).(unsafePtr); ok {
			if u.V == nil {
				return (*Val)(nil)
			}
			return u.V
		}
		return *c
	}
	e.reg("(*sync/atomic.Pointer[T]).Load", func(in *Interp, _ *frame, fn *ssa.Function, a []Val) Val {
		return ptrLoad(in, fieldCell(nilCheck(in, a[0]), recvT(fn), "v"))
	})
	e.reg("(*sync/atomic.Pointer[T]).Store", func(in *Interp, _ *frame, fn *ssa.Function, a []Val) Val {
		*fieldCell(nilCheck(in, a[0]), recvT(fn), "v") = unsafePtr{V: a[1]}
		return nil
	})
	e.reg("(*sync/atomic.Pointer[T]).Swap", func(in *Interp, _ *frame, fn *ssa.Function, a []Val) Val {
		c := fieldCell(nilCheck(in, a[0]), recvT(fn), "v")
		old := ptrLoad(in, c)
		*c = unsafePtr{V: a[1]}
		return old
	})
	e.reg("(*sync/atomic.Pointer[T]).CompareAndSwap", func(in *Interp, _ *frame, fn *ssa.Function, a []Val) Val {
		c := fieldCell(nilCheck(in, a[0]), recvT(fn), "v")
		old := ptrLoad(in, c)
		if in.Branch(in.equal(nil, old, a[1])) {
			*c = unsafePtr{V: a[2]}
			return in.ctx.True
		}
		return in.ctx.False
	})
	// function forms on plain cells
	for _, tn := range []string{"Int32", "Int64", "Uint32", "Uint64", "Uintptr"} {
		e.reg("sync/atomic.Load"+tn, func(in *Interp, fr *frame, fn *ssa.Function, a []Val) Val { return in.load(fr, a[0]) })
		e.reg("sync/atomic.Store"+tn, func(in *Interp, fr *frame, fn *ssa.Function, a []Val) Val { in.store(fr, a[0], a[1]); return nil })
		e.reg("sync/atomic.Add"+tn, func(in *Interp, fr *frame, fn *ssa.Function, a []Val) Val {
			v := in.ctx.Bin(smt.OpAdd, in.load(fr, a[0]).(*smt.Term), a[1].(*smt.Term))
			in.store(fr, a[0], v)
			return v
		})
		e.reg("sync/atomic.Swap"+tn, func(in *Interp, fr *frame, fn *ssa.Function, a []Val) Val {
			old := in.load(fr, a[0])
			in.store(fr, a[0], a[1])
			return old
		})
		e.reg("sync/atomic.CompareAndSwap"+tn, func(in *Interp, fr *frame, fn *ssa.Function, a []Val) Val {
			if in.Branch(in.ctx.Eq(in.load(fr, a[0]).(*smt.Term), a[1].(*smt.Term))) {
				in.store(fr, a[0], a[2])
				return in.ctx.True
			}
			return in.ctx.False
		})
	}

	// ---- logging / formatting ----
	for _, n := range []string{"Printf", "Println", "Print"} {
		e.reg("log."+n, noop)
		e.reg("(*log.Logger)."+n, noop)
	}
	for _, n := range []string{"Printlnf", "Println", "Defaultf", "Default", "Infof", "Info", "Debugf", "Debug", "Successf", "Success",
		"Errorf", "Error", "Warningf", "Warning", "Secondaryf", "Secondary", "Questionf", "Question"} {
		e.reg("(*"+repoMod+"/log.Log)."+n, func(in *Interp, fr *frame, fn *ssa.Function, a []Val) Val {
			key := "log"
			if len(a) > 1 {
				if m, ok := a[1].(Str); ok && m.B == nil {
					key = "log:" + m.S
				}
			}
			in.yieldPoint(fr, key)
			return nil
		})
	}
	e.reg(repoMod+"/log.NewLog", func(in *Interp, fr *frame, fn *ssa.Function, a []Val) Val {
		cell := new(Val)
		*cell = in.zero(deref(fn.Signature.Results().At(0).Type()))
		return cell
	})
	e.reg("fmt.Sprintf", func(in *Interp, fr *frame, fn *ssa.Function, a []Val) Val {
		return Str{S: in.sprintf(a[0].(Str), a[1])}
	})
	e.reg("fmt.Sprint", func(in *Interp, fr *frame, fn *ssa.Function, a []Val) Val {
		return Str{S: in.sprintf(Str{S: "%v"}, a[0])}
	})
	e.reg("fmt.Errorf", func(in *Interp, fr *frame, fn *ssa.Function, a []Val) Val {
		return in.newError(fr, in.sprintf(a[0].(Str), a[1]))
	})
	e.reg("fmt.Fprintf", noop)
	e.reg("fmt.Printf", noop)
	e.reg("fmt.Println", noop)

	// ---- runtime / os / reflect ----
	e.reg("runtime.Gosched", noop)
	e.reg("runtime.KeepAlive", noop)
	e.reg("runtime.SetFinalizer", noop)
	e.reg("runtime.AddCleanup[T,S]", noop)
	e.reg("runtime.AddCleanup", noop)
	e.reg("os.Getenv", func(in *Interp, fr *frame, fn *ssa.Function, a []Val) Val { return Str{} })
	e.reg("os.LookupEnv", func(in *Interp, fr *frame, fn *ssa.Function, a []Val) Val { return Tuple{Str{}, in.ctx.False} })
	e.reg("reflect.ValueOf", func(in *Interp, fr *frame, fn *ssa.Function, a []Val) Val {
		return reflectVal{a[0].(Iface)}
	})
	e.reg("(reflect.Value).Pointer", func(in *Interp, fr *frame, fn *ssa.Function, a []Val) Val {
		rv := a[0].(reflectVal)
		var key interface{}
		switch f := rv.v.V.(type) {
		case *ssa.Function:
			if f == nil {
				return in.ctx.Const(64, 0)
			}
			key = f
		case *Closure:
			key = f.Fn
			if strings.HasPrefix(f.Fn.Synthetic, "bound method wrapper") {
				// all method values of one method share one code pointer in Go; go/ssa
				// may build a separate wrapper per use
				key = "bound:" + f.Fn.String()
			}
		case *Val:
			if f == nil {
				return in.ctx.Const(64, 0)
			}
			key = f
		default:
			panic(unsupported(fmt.Sprintf("reflect.Value.Pointer of %T", rv.v.V)))
		}
		ids, _ := in.side["ptrids"].(map[interface{}]uint64)
		if ids == nil {
			ids = map[interface{}]uint64{}
			in.side["ptrids"] = ids
		}
		id, ok := ids[key]
		if !ok {
			id = uint64(0x1000 + 16*len(ids))
			ids[key] = id
		}
		return in.ctx.Const(64, id)
	})

	// ---- strings.Builder pieces that use unsafe ----
	e.reg("(*strings.Builder).copyCheck", noop)
	e.reg("(*strings.Builder).String", func(in *Interp, fr *frame, fn *ssa.Function, a []Val) Val {
		b := *fieldCell(nilCheck(in, a[0]), recvT(fn), "buf")
		return in.strOfBytes(b.(BSlice))
	})
	e.reg("internal/bytealg.IndexByteString", func(in *Interp, fr *frame, fn *ssa.Function, a []Val) Val {
		s := a[0].(Str)
		ch := a[1].(*smt.Term)
		for i := 0; i < s.Len(); i++ {
			if in.Branch(in.ctx.Eq(in.strByte(s, i), ch)) {
				return in.ctx.Const(64, uint64(i))
			}
		}
		return in.ctx.Const(64, ^uint64(0))
	})
	e.reg("internal/bytealg.IndexByte", func(in *Interp, fr *frame, fn *ssa.Function, a []Val) Val {
		b := a[0].(BSlice)
		ch := a[1].(*smt.Term)
		if b.Cell == nil {
			return in.ctx.Const(64, ^uint64(0))
		}
		n := in.Concretize(b.Len)
		arr := (*b.Cell).(BArr).A
		for i := uint64(0); i < n; i++ {
			if in.Branch(in.ctx.Eq(in.ctx.Select(arr, in.ctx.Bin(smt.OpAdd, b.Off, in.ctx.Const(64, i))), ch)) {
				return in.ctx.Const(64, i)
			}
		}
		return in.ctx.Const(64, ^uint64(0))
	})
	e.reg("internal/bytealg.CountString", func(in *Interp, fr *frame, fn *ssa.Function, a []Val) Val {
		s := a[0].(Str)
		ch := a[1].(*smt.Term)
		n := in.ctx.Const(64, 0)
		for i := 0; i < s.Len(); i++ {
			n = in.ctx.Bin(smt.OpAdd, n, in.ctx.Ite(in.ctx.Eq(in.strByte(s, i), ch), in.ctx.Const(64, 1), in.ctx.Const(64, 0)))
		}
		return n
	})
	e.reg("strings.Index", func(in *Interp, fr *frame, fn *ssa.Function, a []Val) Val {
		s, sub := a[0].(Str), a[1].(Str)
		if s.B == nil && sub.B == nil {
			return in.ctx.Const(64, uint64(int64(strings.Index(s.S, sub.S))))
		}
		for i := 0; i+sub.Len() <= s.Len(); i++ {
			if in.Branch(in.strEq(in.strSlice(s, i, i+sub.Len()), sub)) {
				return in.ctx.Const(64, uint64(i))
			}
		}
		return in.ctx.Const(64, ^uint64(0))
	})
	e.reg("errors.Is", func(in *Interp, fr *frame, fn *ssa.Function, a []Val) Val {
		return in.ctx.BoolC(in.errorsIs(fr, a[0].(Iface), a[1].(Iface), 0))
	})
	registerVerifAPI(e)
	registerTimeModels(e)
	registerRegexpModels(e)
	registerJSONDecoderModel(e)
	registerCookieModel(e)
	registerCompressModels(e)
	registerStringModels(e)
	registerTimerModels(e)
	registerRuntimeTimerModels(e)
	registerJSONModels(e)
}

type reflectVal struct{ v Iface }

func (in *Interp) strSlice(s Str, lo, hi int) Str {
	if s.B == nil {
		return Str{S: s.S[lo:hi]}
	}
	return normStr(s.B[lo:hi])
}

// newError builds an error value through the real errors.New.
func (in *Interp) newError(fr *frame, msg string) Val {
	p := in.W.Prog.ImportedPackage("errors")
	if p == nil {
		panic(unsupported("package errors not loaded"))
	}
	return in.callFn(fr, p.Func("New"), []Val{Str{S: msg}})
}

func (in *Interp) errorsIs(fr *frame, err, target Iface, depth int) bool {
	if err.T == nil || target.T == nil {
		return err.T == nil && target.T == nil
	}
	if depth > 16 {
		return false
	}
	if types.Comparable(target.T) && types.Identical(err.T, target.T) {
		if in.Branch(in.equal(err.T, err.V, target.V)) {
			return true
		}
	}
	ms := in.W.Prog.MethodSets.MethodSet(err.T)
	for i := 0; i < ms.Len(); i++ {
		sel := ms.At(i)
		f := sel.Obj().(*types.Func)
		sig := f.Type().(*types.Signature)
		switch f.Name() {
		case "Is":
			if sig.Params().Len() == 1 && sig.Results().Len() == 1 {
				r := in.callFn(fr, in.W.Prog.MethodValue(sel), []Val{err.V, target})
				if in.Branch(r.(*smt.Term)) {
					return true
				}
			}
		}
	}
	for i := 0; i < ms.Len(); i++ {
		sel := ms.At(i)
		f := sel.Obj().(*types.Func)
		sig := f.Type().(*types.Signature)
		if f.Name() == "Unwrap" && sig.Params().Len() == 0 && sig.Results().Len() == 1 {
			r := in.callFn(fr, in.W.Prog.MethodValue(sel), []Val{err.V})
			switch u := r.(type) {
			case Iface:
				return in.errorsIs(fr, u, target, depth+1)
			case Slice:
				for _, e := range u {
					if in.errorsIs(fr, e.(Iface), target, depth+1) {
						return true
					}
				}
				return false
			}
		}
	}
	return false
}

// sprintf is a best-effort formatter for diagnostics strings.
func (in *Interp) sprintf(format Str, args Val) string {
	if format.B != nil {
		return "<symbolic format>"
	}
	var as []Val
	switch s := args.(type) {
	case Slice:
		as = s
	}
	var sb strings.Builder
	ai := 0
	f := format.S
	for i := 0; i < len(f); i++ {
		if f[i] != '%' || i+1 >= len(f) {
			sb.WriteByte(f[i])
			continue
		}
		j := i + 1
		for j < len(f) && strings.IndexByte("+-# 0123456789.", f[j]) >= 0 {
			j++
		}
		if j >= len(f) {
			break
		}
		verb := f[j]
		i = j
		if verb == '%' {
			sb.WriteByte('%')
			continue
		}
		if ai >= len(as) {
			sb.WriteString("%!" + string(verb) + "(MISSING)")
			continue
		}
		sb.WriteString(in.fmtVal(as[ai], verb))
		ai++
	}
	return sb.String()
}

func (in *Interp) fmtVal(v Val, verb byte) string {
	switch x := v.(type) {
	case Iface:
		if x.T == nil {
			return "<nil>"
		}
		if verb == 'v' || verb == 's' {
			if s := in.errorString(x); s != "" {
				return s
			}
		}
		return in.fmtVal(x.V, verb)
	case *smt.Term:
		if x.IsConst() {
			if x.Sort.K == smt.KBool {
				return fmt.Sprint(x.Val == 1)
			}
			return fmt.Sprint(x.SVal())
		}
		return "<sym>"
	case Str:
		if x.B == nil {
			if verb == 'q' {
				return fmt.Sprintf("%q", x.S)
			}
			return x.S
		}
		return "<symstr>"
	case float64:
		return fmt.Sprint(x)
	case *Val:
		return fmt.Sprintf("%p", x)
	}
	return fmt.Sprintf("<%T>", v)
}
