package sym

import (
	"fmt"
	"os"
	"runtime/debug"
	"sort"
	"strings"
	"sync"
	"time"

	"golang.org/x/tools/go/ssa"

	"gosymx/smt"
)

type Config struct {
	Unwind       int
	MaxDecisions int
	MaxSteps     int
	MaxPaths     int
	TimeoutMs    int
	Workers      int
	MapOrder     string
	NoLambda     bool
	Solver       string
	Trace        bool
	Deadline     time.Time
	Tier         int
	Progress     bool
	NoSlice      bool
	OneShot      bool
	NoModelGuide bool
	FastTimeoutMs int
	NSamples     int
	NoMerge      bool
}

type ModelFn func(in *Interp, caller *frame, fn *ssa.Function, args []Val) Val

// Engine is the state shared by all workers exploring one harness.
type Engine struct {
	Prog    *ssa.Program
	Cfg     Config
	Harness *ssa.Function

	models        map[string]ModelFn
	HarnessModels map[string]*ssa.Function // callee full name -> replacement (plain Go in the harness dir)
	SkipInitPkgs  map[string]bool

	mu       sync.Mutex
	cond     *sync.Cond
	queue    []WorkItem
	active   int
	stopped  bool

	// statistics (guarded by mu)
	Paths       int
	Outcomes    map[string]int
	Failures    []Failure
	Unknowns    int
	Unwinds     map[string]int
	Sites       map[string]int
	AssertSat   int
	AssertUnsat int
	AssertUnk   int
	Fns         map[string]int
	ModelsUsed  map[string]int
	Steps       int64
	Unsupported map[string]int
	Samples     []Sample
	LimitHits   map[string]int
	SolverStats []SolverStat
	EndReached  int
	Rescues     int
}

type SolverStat struct {
	Queries, Sat, Unsat, Unknown, Errors int
	Seconds                             float64
}

func NewEngine(prog *ssa.Program, cfg Config) *Engine {
	e := &Engine{Prog: prog, Cfg: cfg, models: map[string]ModelFn{}, HarnessModels: map[string]*ssa.Function{},
		SkipInitPkgs: map[string]bool{}}
	e.cond = sync.NewCond(&e.mu)
	registerModels(e)
	return e
}

func (e *Engine) reset() {
	e.queue = nil
	e.active = 0
	e.stopped = false
	e.Paths = 0
	e.Outcomes = map[string]int{}
	e.Failures = nil
	e.Unknowns = 0
	e.Unwinds = map[string]int{}
	e.Sites = map[string]int{}
	e.AssertSat, e.AssertUnsat, e.AssertUnk = 0, 0, 0
	e.Fns = map[string]int{}
	e.ModelsUsed = map[string]int{}
	e.Steps = 0
	e.Unsupported = map[string]int{}
	e.Samples = nil
	e.LimitHits = map[string]int{}
	e.SolverStats = nil
	e.EndReached = 0
	e.Rescues = 0
}

// WorkItem is an unexplored path prefix together with a model of its path condition.
type WorkItem struct {
	Prefix []Decision
	Model  *smt.Model
}

func (e *Engine) push(p WorkItem) {
	e.mu.Lock()
	e.queue = append(e.queue, p)
	e.mu.Unlock()
	e.cond.Signal()
}

func (e *Engine) pop() (WorkItem, bool) {
	e.mu.Lock()
	defer e.mu.Unlock()
	for {
		if e.stopped {
			return WorkItem{}, false
		}
		if n := len(e.queue); n > 0 {
			p := e.queue[n-1]
			e.queue = e.queue[:n-1]
			e.active++
			return p, true
		}
		if e.active == 0 {
			e.cond.Broadcast()
			return WorkItem{}, false
		}
		e.cond.Wait()
	}
}

func (e *Engine) done() {
	e.mu.Lock()
	e.active--
	if e.active == 0 && len(e.queue) == 0 {
		e.cond.Broadcast()
	}
	e.mu.Unlock()
}

func (e *Engine) noteRescue(r smt.Result) {
	e.mu.Lock()
	e.Rescues++
	e.mu.Unlock()
}

func (e *Engine) noteUnknown(in *Interp) {
	e.mu.Lock()
	e.Unknowns++
	e.mu.Unlock()
	in.sawUnknown = true
}
func (e *Engine) noteSite(site string, reached bool) {
	e.mu.Lock()
	e.Sites[site]++
	e.mu.Unlock()
}
func (e *Engine) noteAssert(r smt.Result) {
	e.mu.Lock()
	switch r {
	case smt.Sat:
		e.AssertSat++
	case smt.Unsat:
		e.AssertUnsat++
	default:
		e.AssertUnk++
	}
	e.mu.Unlock()
}
func (e *Engine) addFailure(f Failure) {
	e.mu.Lock()
	e.Failures = append(e.Failures, f)
	e.mu.Unlock()
}
func (e *Engine) noteFn(fn *ssa.Function)    {}
func (e *Engine) noteModel(fn *ssa.Function) {}
func (e *Engine) noteUnwind(s string) {
	e.mu.Lock()
	e.Unwinds[s]++
	e.mu.Unlock()
}
// initAllow: standard-library / dependency packages whose initialisers are executed.
// Every other package outside the repository module keeps zero-valued globals (their
// initialisers reach reflect, the OS or the runtime); the models stand for them.
var initAllow = map[string]bool{
	"errors": true, "io": true, "bufio": true, "bytes": true, "strings": true, "strconv": true,
	"unicode": true, "unicode/utf8": true, "encoding/base64": true, "encoding/binary": true,
	"path": true, "sort": true, "math": true, "math/bits": true, "slices": true, "maps": true,
	"net/url": true, "io/fs": true, "context": true,
	"github.com/zishang520/engine.io-go-parser/packet": true,
	"github.com/zishang520/engine.io-go-parser/parser": true,
	"github.com/zishang520/engine.io-go-parser/utils": true,
}

func (e *Engine) skipInit(pkg *ssa.Package) bool {
	p := pkg.Pkg.Path()
	if e.SkipInitPkgs[p] {
		return true
	}
	if strings.HasPrefix(p, repoMod) || initAllow[p] {
		return false
	}
	return true
}

func (e *Engine) lookupModel(fn *ssa.Function) ModelFn {
	if m, ok := e.models[fn.String()]; ok {
		return m
	}
	if o := fn.Origin(); o != nil && o != fn {
		if m, ok := e.models[o.String()]; ok {
			return m
		}
	}
	return nil
}

func (e *Engine) harnessModel(fn *ssa.Function) *ssa.Function {
	if len(e.HarnessModels) == 0 {
		return nil
	}
	return e.HarnessModels[fn.String()]
}

// thread is one interpreted goroutine.
type thread struct {
	id        int
	top       *frame
	wake      chan struct{}
	state     int // 0 runnable, 1 blocked, 2 done, 3 quiescing
	blockedOn string
	fn        Val
	args      []Val
	started   bool
	quiescingInInjection bool
}

const (
	tRunnable = iota
	tBlocked
	tDone
	tQuiescing
)

type observe struct {
	name string
	val  Val
}

// Interp is the per-path interpreter state.
type Interp struct {
	W   *Engine
	ctx *smt.Ctx
	sol *smt.Solver
	sol2    *smt.Solver // fallback: one-shot mode with the full timeout
	lastSol *smt.Solver

	prefix     []Decision
	pos        int
	taken      []Decision
	pc         []*smt.Term
	synced     int
	solverOpen bool
	modelScope bool
	model      *smt.Model
	evaluator  *smt.Evaluator
	symVars    []*smt.Term
	ndecisions int
	nvar       int
	nsymkey    int
	nchan      int
	steps      int
	depth      int
	initDepth  int
	sawUnknown bool

	harness  string
	inputs   []Input
	observes []observe

	globals map[*ssa.Global]*Val
	inited  map[*ssa.Package]bool

	threads  []*thread
	cur      *thread
	abort    interface{} // payload forwarded to the main goroutine
	aborting bool
	wg       sync.WaitGroup

	mutexes map[*Val]*mutexState
	side    map[string]interface{} // scratch for models (timers, fn identities ...)
	fnsUsed map[*ssa.Function]int
	modelsUsed map[string]int
	events  []*event
	injBudget int
	inInjection bool
	yieldCount int
	crashStack []string
	preemptBudget int
	spawnBudget   int
	injThread     *thread
}

type mutexState struct {
	writer  *thread
	held    bool
	readers int
}

// PathResult summarises one explored path.
type PathResult struct {
	Kind string
	Msg  string
}

type threadKill struct{}

// runPath executes the harness once along prefix.
func (e *Engine) runPath(sol, sol2 *smt.Solver, item WorkItem) (res PathResult) {
	prefix := item.Prefix
	in := &Interp{W: e, ctx: smt.NewCtx(), sol: sol, sol2: sol2, prefix: prefix, model: item.Model,
		globals: map[*ssa.Global]*Val{}, inited: map[*ssa.Package]bool{},
		mutexes: map[*Val]*mutexState{}, side: map[string]interface{}{},
		fnsUsed: map[*ssa.Function]int{}, modelsUsed: map[string]int{},
		harness: e.Harness.Name()}
	main := &thread{id: 0, wake: make(chan struct{}, 1), started: true}
	in.threads = []*thread{main}
	in.cur = main
	defer func() {
		r := recover()
		// kill remaining threads
		in.killThreads()
		switch p := r.(type) {
		case nil:
			res = PathResult{"ok", ""}
		case pathEnd:
			res = PathResult{p.kind, p.msg}
		case *goPanic:
			res = PathResult{"panic", p.msg}
			in.reportPanic(p)
		case unsupportedErr:
			res = PathResult{"unsupported", p.msg + " | ssa stack: " + strings.Join(in.crashStack, " < ")}
		default:
			gs := strings.Split(string(debug.Stack()), "\n")
			var keep []string
			for _, l := range gs {
				if strings.Contains(l, "/verif/tool/sym/") && !strings.Contains(l, "exec.go:2") && !strings.Contains(l, "exec.go:3") && len(keep) < 6 {
					keep = append(keep, strings.TrimSpace(l))
				}
			}
			res = PathResult{"internal", fmt.Sprintf("%v | interp: %s | ssa stack: %s", r, strings.Join(keep, " < "), strings.Join(in.crashStack, " < "))}
		}
		if in.solverOpen || in.modelScope {
			sol.ResetScopes()
			in.solverOpen, in.modelScope = false, false
		}
		e.finishPath(in, res)
	}()
	in.callFn(nil, e.Harness, nil)
	in.quiesce()
	in.atEnd()
	return
}

// reportPanic records an unrecovered Go panic as a failure (with a model).
func (in *Interp) reportPanic(p *goPanic) {
	if in.replayingStrict() {
		return
	}
	if r := in.solve(); r == smt.Sat {
		f := Failure{Kind: "panic", Msg: p.msg, Site: "", Harness: in.harness, Stack: p.stack}
		if len(p.stack) > 0 {
			f.Site = p.stack[0]
		}
		f.Inputs = in.modelInputs()
		f.Decisions = append([]Decision{}, in.taken...)
		for _, o := range in.observes {
			f.Observed = append(f.Observed, Observed{o.name, in.evalObserved(o.val)})
		}
		in.W.addFailure(f)
	}
}

// replayingStrict: the path ended while still replaying its prefix (another path owns the report).
func (in *Interp) replayingStrict() bool { return in.pos < len(in.prefix) }

func (in *Interp) atEnd() {
	in.W.mu.Lock()
	in.W.EndReached++
	n := in.W.EndReached
	want := len(in.W.Samples) < in.W.Cfg.NSamples && !in.replayingStrict()
	// spread the samples over the exploration: take path 1, 2, 4, 8, ... and every 97th
	if want && !(n&(n-1) == 0 || n%97 == 0) {
		want = false
	}
	in.W.mu.Unlock()
	if !want {
		return
	}
	if r := in.solve(); r == smt.Sat {
		sm := Sample{Harness: in.harness, Inputs: in.modelInputs()}
		for _, o := range in.observes {
			sm.Observed = append(sm.Observed, Observed{o.name, in.evalObserved(o.val)})
		}
		in.W.mu.Lock()
		in.W.Samples = append(in.W.Samples, sm)
		in.W.mu.Unlock()
	}
}

// Sample is a complete feasible path: a concrete assignment of all inputs with the
// values the executor predicts for every Observe call (validated natively).
type Sample struct {
	Harness  string       `json:"harness"`
	Inputs   []InputValue `json:"inputs"`
	Observed []Observed   `json:"observed"`
}

func (e *Engine) finishPath(in *Interp, res PathResult) {
	e.mu.Lock()
	defer e.mu.Unlock()
	e.Paths++
	e.Outcomes[res.Kind]++
	e.Steps += int64(in.steps)
	for f, n := range in.fnsUsed {
		e.Fns[f.String()] += n
	}
	for m, n := range in.modelsUsed {
		e.ModelsUsed[m] += n
	}
	switch res.Kind {
	case "unsupported", "internal":
		e.Unsupported[res.Msg]++
	case "limit", "unwind", "unknown":
		e.LimitHits[res.Kind+": "+res.Msg]++
	}
	if e.Cfg.MaxPaths > 0 && e.Paths >= e.Cfg.MaxPaths {
		e.stopped = true
		e.LimitHits["path limit reached"]++
		e.cond.Broadcast()
	}
	if !e.Cfg.Deadline.IsZero() && time.Now().After(e.Cfg.Deadline) {
		if !e.stopped {
			e.LimitHits["wall-clock deadline reached"]++
		}
		e.stopped = true
		e.cond.Broadcast()
	}
}

// Run explores all paths of harness fn.
func (e *Engine) Run(fn *ssa.Function) error {
	e.reset()
	e.Harness = fn
	e.queue = []WorkItem{{Model: smt.NewModel()}}
	var wg sync.WaitGroup
	errs := make(chan error, e.Cfg.Workers)
	for w := 0; w < e.Cfg.Workers; w++ {
		wg.Add(1)
		go func() {
			defer wg.Done()
			t1 := e.Cfg.TimeoutMs
			if !e.Cfg.OneShot && e.Cfg.FastTimeoutMs > 0 && e.Cfg.FastTimeoutMs < t1 {
				t1 = e.Cfg.FastTimeoutMs
			}
			sol, err := smt.NewSolver(e.Cfg.Solver, t1)
			if err != nil {
				errs <- err
				return
			}
			defer sol.Close()
			var sol2 *smt.Solver
			if !e.Cfg.OneShot {
				sol2, err = smt.NewSolver(e.Cfg.Solver, e.Cfg.TimeoutMs)
				if err != nil {
					errs <- err
					return
				}
				defer sol2.Close()
			}
			n := 0
			for {
				p, ok := e.pop()
				if !ok {
					break
				}
				e.runPath(sol, sol2, p)
				e.done()
				n++
				if n%200 == 0 || sol.Errors > 0 && strings.Contains(sol.LastErr, "died") {
					e.collectSolver(sol)
					sol.Restart()
				}
			}
			e.collectSolver(sol)
			if sol2 != nil {
				e.collectSolver(sol2)
			}
		}()
	}
	stopProg := make(chan struct{})
	if e.Cfg.Progress {
		go func() {
			tk := time.NewTicker(10 * time.Second)
			defer tk.Stop()
			for {
				select {
				case <-stopProg:
					return
				case <-tk.C:
					e.mu.Lock()
					fmt.Fprintf(os.Stderr, "  .. %s paths=%d queue=%d active=%d failures=%d outcomes=%v\n", fn.Name(), e.Paths, len(e.queue), e.active, len(e.Failures), e.Outcomes)
					e.mu.Unlock()
				}
			}
		}()
	}
	wg.Wait()
	close(stopProg)
	select {
	case err := <-errs:
		return err
	default:
	}
	return nil
}

func (e *Engine) collectSolver(s *smt.Solver) {
	e.mu.Lock()
	e.SolverStats = append(e.SolverStats, SolverStat{s.Queries, s.NSat, s.NUnsat, s.NUnknown, s.Errors, s.Time.Seconds()})
	e.mu.Unlock()
	s.Queries, s.NSat, s.NUnsat, s.NUnknown, s.Errors, s.Time = 0, 0, 0, 0, 0, 0
}

func (e *Engine) SortedFns() []string {
	var out []string
	for f := range e.Fns {
		out = append(out, f)
	}
	sort.Strings(out)
	return out
}

// ---- threads ----

func (in *Interp) spawn(fr *frame, fn Val, args []Val) {
	t := &thread{id: len(in.threads), wake: make(chan struct{}, 1), fn: fn, args: args}
	in.threads = append(in.threads, t)
}

func (in *Interp) startThread(t *thread) {
	t.started = true
	in.wg.Add(1)
	go func() {
		defer in.wg.Done()
		<-t.wake
		defer func() {
			r := recover()
			if _, ok := r.(threadKill); ok {
				return
			}
			t.state = tDone
			if r != nil {
				// forward to main
				if in.abort == nil {
					in.abort = r
				}
				in.aborting = true
				in.threads[0].wake <- struct{}{}
				return
			}
			in.wakeBlocked()
			nx := in.pickNext(t)
			if nx == nil {
				// nobody can run: main must be blocked -> let it detect
				nx = in.threads[0]
			}
			in.handoff(nx)
		}()
		if in.aborting {
			panic(threadKill{})
		}
		in.cur = t
		in.call(nil, t.fn, t.args)
	}()
}

// handoff gives the baton to nx without waiting (caller is finishing).
func (in *Interp) handoff(nx *thread) {
	in.cur = nx
	if !nx.started {
		in.startThread(nx)
	}
	nx.wake <- struct{}{}
}

// switchTo passes the baton to nx and waits to get it back.
func (in *Interp) switchTo(nx *thread) {
	me := in.cur
	in.handoff(nx)
	<-me.wake
	in.cur = me
	if in.aborting {
		if me.id == 0 {
			panic(in.abort)
		}
		panic(threadKill{})
	}
}

// pickNext: lowest-id runnable thread other than me; else a quiescing one.
func (in *Interp) pickNext(me *thread) *thread {
	for _, t := range in.threads {
		if t != me && t.state == tRunnable {
			return t
		}
	}
	for i := len(in.threads) - 1; i >= 0; i-- {
		t := in.threads[i]
		if t != me && t.state == tQuiescing {
			return t
		}
	}
	return nil
}

func (in *Interp) wakeBlocked() {
	for _, t := range in.threads {
		if t.state == tBlocked {
			t.state = tRunnable
		}
	}
}

// block suspends the current thread until some other thread made progress.
func (in *Interp) block(why string) {
	me := in.cur
	if in.inInjection && me == in.injThread && !me.quiescingInInjection {
		in.endPath("infeasible", "injected event would block: "+why)
	}
	me.state = tBlocked
	me.blockedOn = why
	nx := in.pickNext(me)
	if nx == nil {
		// nothing can run
		if me.id == 0 {
			me.state = tRunnable
			in.blockedForever(why)
		}
		// a non-main thread: main must be blocked/done too; report through main
		if m := in.threads[0]; m.state == tBlocked && !in.replayingStrict() {
			msg := "main thread blocked forever on " + m.blockedOn
			if r := in.solve(); r == smt.Sat {
				site := ""
				if m.top != nil {
					site = m.top.site()
				}
				in.reportFailure("blocked", msg, site)
			}
		}
		in.abort = pathEnd{"blocked", "all threads blocked; thread " + fmt.Sprint(me.id) + " on " + why + "; main on " + in.threads[0].blockedOn}
		in.aborting = true
		in.threads[0].wake <- struct{}{}
		<-me.wake
		panic(threadKill{})
	}
	in.switchTo(nx)
	if me.state == tBlocked { // woken as a last resort (nobody else runnable)
		me.state = tRunnable
		if me.id == 0 {
			// check whether anybody could still run; if not, blocked forever
			if in.pickNext(me) == nil {
				in.blockedForever(why)
			}
		}
	}
}

func (in *Interp) blockedForever(why string) {
	var sb strings.Builder
	for _, t := range in.threads {
		if t.state == tBlocked || t == in.cur {
			fmt.Fprintf(&sb, " [t%d: %s]", t.id, t.blockedOn)
		}
	}
	msg := "main thread blocked forever on " + why + ";" + sb.String()
	if !in.replayingStrict() {
		if r := in.solve(); r == smt.Sat {
			in.reportFailure("blocked", msg, in.cur.topSite(in))
		}
	}
	in.endPath("blocked", msg)
}

func (t *thread) topSite(in *Interp) string {
	if t.top != nil {
		return t.top.site()
	}
	return ""
}

// quiesce runs all other threads until none is runnable.
func (in *Interp) quiesce() {
	me := in.cur
	for {
		var nx *thread
		for _, t := range in.threads {
			if t != me && t.state == tRunnable {
				nx = t
				break
			}
		}
		if nx == nil {
			return
		}
		me.state = tQuiescing
		in.switchTo(nx)
		me.state = tRunnable
	}
}

func (in *Interp) killThreads() {
	in.aborting = true
	if in.abort == nil {
		in.abort = pathEnd{"exit", ""}
	}
	for _, t := range in.threads[1:] {
		if t.started && t.state != tDone {
			select {
			case t.wake <- struct{}{}:
			default:
			}
		}
	}
	in.wg.Wait()
}

// preemptPoint (mechanism 3 of DESIGN 2.5): before an atomic operation executed by a
// spawned thread, the scheduler may hand the processor to another runnable spawned thread
// (bounded by verif.PreemptBudget).  The choice is a decision of the path like any other.
func (in *Interp) preemptPoint() {
	if in.preemptBudget <= 0 || in.inInjection {
		return
	}
	me := in.cur
	if me == nil || me.id == 0 {
		return
	}
	var others []*thread
	for _, t := range in.threads {
		if t != me && t.id != 0 && t.state == tRunnable {
			others = append(others, t)
		}
	}
	if len(others) == 0 {
		return
	}
	k := in.Choose(len(others) + 1)
	if k == 0 {
		return
	}
	in.preemptBudget--
	in.switchTo(others[k-1])
}
