package sym

import (
	"fmt"
	"go/types"
	"os"
	"sync/atomic"
	"time"

	"gosymx/smt"
)

// Decision is one entry of a path's decision sequence.
type Decision struct {
	V   int64
	Neg bool // concretisation: "value != V" taken, another entry follows
}

// Input describes one verif.* value creation, in call order (for replay).
type Input struct {
	Kind  string      // int | bool | bytes | choose | string
	W     int         // bit width for int
	Sgn   bool        // signed (for rendering)
	T     *smt.Term   // scalar term (int/bool) or length term (bytes)
	Arr   *smt.Term   // bytes: content array
	Max   int64       // bytes: declared maximum
	Conc  int64       // choose: concrete value
	Bytes []*smt.Term // string: byte terms
	Label string
}

// InputValue is a concrete value for an Input taken from a model.
type InputValue struct {
	Kind  string `json:"kind"`
	Label string `json:"label,omitempty"`
	Int   int64  `json:"int"`
	Uint  uint64 `json:"uint,omitempty"`
	Len   int64  `json:"len,omitempty"`
	Hex   string `json:"hex,omitempty"` // bytes content (first min(len,cap) bytes)
}

// Failure is an assertion or panic that the solver showed reachable.
type Failure struct {
	Kind      string       `json:"kind"` // assert | panic | deadlock | blocked
	Msg       string       `json:"msg"`
	Site      string       `json:"site"`
	Harness   string       `json:"harness"`
	Inputs    []InputValue `json:"inputs"`
	Decisions []Decision   `json:"decisions"`
	Observed  []Observed   `json:"observed,omitempty"`
	Stack     []string     `json:"stack,omitempty"`
}

type Observed struct {
	Name string `json:"name"`
	Val  string `json:"val"`
}

// pathEnd is the panic payload that terminates the current path.
type pathEnd struct {
	kind string // ok | infeasible | panic | unwind | unsupported | limit | assertfail | blocked | exit
	msg  string
}

func (in *Interp) endPath(kind, msg string) {
	panic(pathEnd{kind, msg})
}

// fresh creates a new symbolic variable; names are sequence numbered so that
// re-executions of a shared prefix create identical names.
func (in *Interp) fresh(label string, s smt.Sort) *smt.Term {
	in.nvar++
	v := in.ctx.Var(fmt.Sprintf("v%d_%s", in.nvar, label), s)
	in.symVars = append(in.symVars, v)
	return v
}

func (in *Interp) msol() *smt.Solver {
	if in.lastSol != nil {
		return in.lastSol
	}
	return in.sol
}

// ---- model-guided exploration ----
// in.model, when non-nil, satisfies in.pc.  Evaluating a branch condition under it
// yields one feasible side without a solver call; only the other side is queried.

func (in *Interp) evalModel(t *smt.Term) (uint64, bool) {
	if in.model == nil || in.W.Cfg.NoModelGuide {
		return 0, false
	}
	if in.evaluator == nil {
		in.evaluator = smt.NewEvaluator(in.model)
	}
	return in.evaluator.Eval(t)
}

func (in *Interp) setModel(m *smt.Model) {
	in.model = m
	in.evaluator = nil
}

// fetchModel reads the solver's current model (right after a Sat answer).
func (in *Interp) fetchModel() *smt.Model {
	var ts []*smt.Term
	type arrReq struct {
		v *smt.Term
		n int
	}
	var arrs []arrReq
	for _, v := range in.symVars {
		if v.Sort.K == smt.KArr {
			n := 48
			arrs = append(arrs, arrReq{v, n})
			for i := 0; i < n; i++ {
				ts = append(ts, in.ctx.Select(v, in.ctx.Const(64, uint64(i))))
			}
		} else {
			ts = append(ts, v)
		}
	}
	vals, ok := in.msol().Values(ts)
	if !ok {
		return nil
	}
	m := smt.NewModel()
	k := 0
	for _, v := range in.symVars {
		if v.Sort.K == smt.KArr {
			b := make([]byte, 48)
			for i := range b {
				b[i] = byte(vals[k])
				k++
			}
			m.Arrays[v.Name] = b
		} else {
			m.Scalars[v.Name] = vals[k]
			k++
		}
	}
	return m
}

func (in *Interp) addPC(t *smt.Term) {
	if t.IsTrue() {
		return
	}
	in.pc = append(in.pc, t)
}

// syncSolver (incremental mode) opens the per-path scope and asserts pending conjuncts.
func (in *Interp) syncSolver() {
	if in.modelScope {
		in.sol.Pop()
		in.modelScope = false
	}
	if !in.solverOpen {
		in.sol.ResetScopes()
		in.sol.Push()
		in.solverOpen = true
		in.synced = 0
	}
	for ; in.synced < len(in.pc); in.synced++ {
		in.sol.Assert(in.pc[in.synced])
	}
}

// solve decides pc ∧ extra; after Sat the model stays readable (Values) until the
// next solver operation.
func (in *Interp) solve(extra ...*smt.Term) smt.Result {
	var r smt.Result
	if in.W.Cfg.OneShot {
		ts := make([]*smt.Term, 0, len(in.pc)+len(extra))
		ts = append(ts, in.pc...)
		ts = append(ts, extra...)
		r = in.sol.Solve(ts)
		in.lastSol = in.sol
	} else {
		in.syncSolver()
		in.sol.Push()
		in.modelScope = true
		for _, e := range extra {
			in.sol.Assert(e)
		}
		r = in.sol.Check()
		in.lastSol = in.sol
		if r == smt.Unknown && in.sol2 != nil {
			// second opinion from a clean solver state (z3's non-incremental pipeline)
			ts := make([]*smt.Term, 0, len(in.pc)+len(extra))
			ts = append(ts, in.pc...)
			ts = append(ts, extra...)
			r = in.sol2.Solve(ts)
			in.lastSol = in.sol2
			in.W.noteRescue(r)
		}
	}
	if r == smt.Unknown {
		in.W.noteUnknown(in)
	}
	return r
}

// check decides feasibility of pc ∧ extra.  In one-shot mode only the conjuncts of
// pc that share variables (transitively) with extra are sent: pc is satisfiable by
// construction, so the independent rest cannot change the answer.
func (in *Interp) check(extra *smt.Term) smt.Result {
	if extra.IsFalse() {
		return smt.Unsat
	}
	if !in.W.Cfg.OneShot {
		return in.solve(extra)
	}
	if in.sawUnknown || in.W.Cfg.NoSlice {
		return in.solve(extra)
	}
	ts := in.ctx.Slice(in.pc, extra)
	ts = append(ts, extra)
	t0 := time.Now()
	r := in.sol.Solve(ts)
	in.lastSol = in.sol
	if d := time.Since(t0); slowDir != "" && d > 300*time.Millisecond {
		n := atomic.AddInt32(&slowN, 1)
		if n < 40 {
			os.WriteFile(fmt.Sprintf("%s/q%03d_%s_%dms.smt2", slowDir, n, r, d.Milliseconds()), []byte(smt.Script(ts, "")), 0o644)
		}
	}
	if r == smt.Unknown {
		in.W.noteUnknown(in)
	}
	return r
}

var slowDir = os.Getenv("GOSYMX_SLOWQ")
var slowN int32

func (in *Interp) record(d Decision) {
	in.taken = append(in.taken, d)
	in.pos++
}

func (in *Interp) replaying() bool { return in.pos < len(in.prefix) }

func (in *Interp) nextReplay() Decision {
	d := in.prefix[in.pos]
	in.taken = append(in.taken, d)
	in.pos++
	return d
}

func (in *Interp) pushSibling(d Decision, m *smt.Model) {
	sib := make([]Decision, len(in.taken)+1)
	copy(sib, in.taken)
	sib[len(in.taken)] = d
	in.W.push(WorkItem{Prefix: sib, Model: m})
}

// checkModel is check + model fetch on Sat.
func (in *Interp) checkModel(extra *smt.Term) (smt.Result, *smt.Model) {
	r := in.check(extra)
	if r == smt.Sat {
		return r, in.fetchModel()
	}
	return r, nil
}

// Branch decides a symbolic condition; both sides are explored when feasible.
func (in *Interp) Branch(c *smt.Term) bool {
	if c.IsConst() {
		return c.Val == 1
	}
	if in.replaying() {
		d := in.nextReplay()
		if d.V == 1 {
			in.addPC(c)
			return true
		}
		in.addPC(in.ctx.Not(c))
		return false
	}
	in.ndecisions++
	if in.ndecisions > in.W.Cfg.MaxDecisions {
		in.endPath("limit", "decision limit")
	}
	nc := in.ctx.Not(c)
	if v, ok := in.evalModel(c); ok {
		// the model's side is feasible for free; query only the other one
		if v == 1 {
			r, m := in.checkModel(nc)
			if r != smt.Unsat {
				in.pushSibling(Decision{V: 0}, m)
			}
			in.record(Decision{V: 1})
			in.addPC(c)
			return true
		}
		r, m := in.checkModel(c)
		if r != smt.Unsat {
			in.pushSibling(Decision{V: 1}, m)
		}
		in.record(Decision{V: 0})
		in.addPC(nc)
		return false
	}
	rf, mf := in.checkModel(nc)
	rt, mt := in.checkModel(c)
	tOK, fOK := rt != smt.Unsat, rf != smt.Unsat
	switch {
	case tOK && fOK:
		in.pushSibling(Decision{V: 0}, mf)
		in.record(Decision{V: 1})
		in.addPC(c)
		in.setModel(mt)
		return true
	case tOK:
		in.record(Decision{V: 1})
		in.addPC(c)
		in.setModel(mt)
		return true
	case fOK:
		in.record(Decision{V: 0})
		in.addPC(nc)
		in.setModel(mf)
		return false
	}
	in.endPath("infeasible", "both branch sides unsat")
	return false
}

// Choose forks n ways without involving the solver; returns the concrete choice.
func (in *Interp) Choose(n int) int {
	if n <= 1 {
		return 0
	}
	if in.replaying() {
		return int(in.nextReplay().V)
	}
	for k := n - 1; k >= 1; k-- {
		in.pushSibling(Decision{V: int64(k)}, in.model)
	}
	in.record(Decision{V: 0})
	return 0
}

// Concretize forks over the feasible values of t and returns a constant.
func (in *Interp) Concretize(t *smt.Term) uint64 {
	for {
		if t.IsConst() {
			return t.Val
		}
		if in.replaying() {
			d := in.nextReplay()
			k := in.ctx.Const(t.Sort.W, uint64(d.V))
			if t.Sort.K == smt.KBool {
				k = in.ctx.BoolC(d.V != 0)
			}
			if d.Neg {
				in.addPC(in.ctx.Not(in.ctx.Eq(t, k)))
				continue
			}
			in.addPC(in.ctx.Eq(t, k))
			return uint64(d.V)
		}
		in.ndecisions++
		if in.ndecisions > in.W.Cfg.MaxDecisions {
			in.endPath("limit", "decision limit")
		}
		v, ok := in.evalModel(t)
		if !ok {
			r := in.solve()
			if r != smt.Sat {
				if r == smt.Unknown {
					in.endPath("unknown", "solver unknown while concretising")
				}
				in.endPath("infeasible", "no value left while concretising")
			}
			vals, okv := in.msol().Values([]*smt.Term{t})
			if !okv {
				in.endPath("unknown", "cannot read model value")
			}
			v = vals[0]
			in.setModel(in.fetchModel())
		}
		k := in.ctx.Const(t.Sort.W, v)
		if t.Sort.K == smt.KBool {
			k = in.ctx.BoolC(v != 0)
		}
		// is any other value feasible?
		ne := in.ctx.Not(in.ctx.Eq(t, k))
		if r, m := in.checkModel(ne); r != smt.Unsat {
			in.pushSibling(Decision{V: int64(v), Neg: true}, m)
		}
		in.record(Decision{V: int64(v)})
		in.addPC(in.ctx.Eq(t, k))
		return v
	}
}

// Assume restricts the path; an infeasible assumption ends it silently.
func (in *Interp) Assume(c *smt.Term) {
	if c.IsTrue() {
		return
	}
	if c.IsFalse() {
		in.endPath("infeasible", "assume false")
	}
	if in.replaying() {
		in.nextReplay()
		in.addPC(c)
		return
	}
	if v, ok := in.evalModel(c); !ok || v == 0 {
		r, m := in.checkModel(c)
		if r == smt.Unsat {
			in.endPath("infeasible", "assume infeasible")
		}
		in.setModel(m)
	}
	in.record(Decision{V: 1})
	in.addPC(c)
}

// Oblige checks an implicit or explicit obligation ok; if its negation is
// feasible a failure is recorded (kind, msg).  Execution continues under ok
// when that is feasible, otherwise the path ends.
// Returns false if the caller must treat the obligation as violated on this path
// (only happens for kind=="panic" obligations, which fork instead).
func (in *Interp) Assert(ok *smt.Term, kind, msg, site string) {
	if ok.IsTrue() {
		in.W.noteSite(site, true)
		return
	}
	if in.replaying() {
		in.nextReplay()
		if ok.IsFalse() {
			in.endPath("assertfail", msg)
		}
		in.addPC(ok)
		return
	}
	in.W.noteSite(site, true)
	bad := in.ctx.Not(ok)
	var fail bool
	if ok.IsFalse() {
		fail = true
		if r := in.solve(); r == smt.Sat {
			in.reportFailure(kind, msg, site)
		}
		in.record(Decision{V: 1})
		in.endPath("assertfail", msg)
	}
	r := in.solve(bad)
	if r == smt.Sat {
		fail = true
		in.reportFailure(kind, msg, site)
	}
	in.W.noteAssert(r)
	if fail {
		if v, okv := in.evalModel(ok); !okv || v == 0 {
			r, m := in.checkModel(ok)
			if r == smt.Unsat {
				in.record(Decision{V: 1})
				in.endPath("assertfail", msg)
			}
			in.setModel(m)
		}
		in.record(Decision{V: 1})
	} else {
		in.record(Decision{V: 0})
	}
	in.addPC(ok)
}

// reportFailure must be called right after a Sat check (model available).
func (in *Interp) reportFailure(kind, msg, site string) {
	f := Failure{Kind: kind, Msg: msg, Site: site, Harness: in.harness}
	f.Inputs = in.modelInputs()
	f.Decisions = append([]Decision{}, in.taken...)
	f.Stack = in.stackTrace()
	for _, o := range in.observes {
		f.Observed = append(f.Observed, Observed{o.name, in.evalObserved(o.val)})
	}
	in.W.addFailure(f)
}

// modelInputs evaluates all inputs created so far in the solver's current model.
func (in *Interp) modelInputs() []InputValue {
	var scal []*smt.Term
	for _, ip := range in.inputs {
		switch ip.Kind {
		case "int", "bool", "bytes":
			scal = append(scal, ip.T)
		case "string":
			scal = append(scal, ip.Bytes...)
		}
	}
	vals, ok := in.msol().Values(scal)
	if !ok {
		return nil
	}
	out := make([]InputValue, 0, len(in.inputs))
	k := 0
	for _, ip := range in.inputs {
		iv := InputValue{Kind: ip.Kind, Label: ip.Label}
		switch ip.Kind {
		case "int":
			v := vals[k]
			k++
			iv.Uint = v
			if ip.Sgn {
				iv.Int = sext64(v, ip.W)
			} else {
				iv.Int = int64(v)
			}
		case "bool":
			iv.Int = int64(vals[k])
			k++
		case "choose":
			iv.Int = ip.Conc
		case "bytes":
			n := int64(vals[k])
			k++
			iv.Len = n
			m := n
			if m > 4096 {
				m = 4096
			}
			if m < 0 {
				m = 0
			}
			sel := make([]*smt.Term, m)
			for i := range sel {
				sel[i] = in.ctx.Select(ip.Arr, in.ctx.Const(64, uint64(i)))
			}
			bv, ok := in.msol().Values(sel)
			if ok {
				b := make([]byte, m)
				for i := range b {
					b[i] = byte(bv[i])
				}
				iv.Hex = fmt.Sprintf("%x", b)
			}
		case "string":
			b := make([]byte, len(ip.Bytes))
			for i := range b {
				b[i] = byte(vals[k])
				k++
			}
			iv.Len = int64(len(b))
			iv.Hex = fmt.Sprintf("%x", b)
		}
		out = append(out, iv)
	}
	return out
}

func sext64(v uint64, w int) int64 {
	if w < 64 && v&(1<<uint(w-1)) != 0 {
		v |= ^((uint64(1) << uint(w)) - 1)
	}
	return int64(v)
}

func (in *Interp) evalObserved(iv Val) string {
	v := iv
	var typ types.Type
	if f, ok := iv.(Iface); ok {
		v, typ = f.V, f.T
	}
	switch x := v.(type) {
	case *smt.Term:
		var val uint64
		if x.IsConst() {
			val = x.Val
		} else {
			vals, ok := in.msol().Values([]*smt.Term{x})
			if !ok {
				return "?"
			}
			val = vals[0]
		}
		if x.Sort.K == smt.KBool {
			return fmt.Sprint(val == 1)
		}
		if typ != nil {
			if _, sgn, ok := intInfo(typ); ok && sgn {
				return fmt.Sprint(sext64(val, x.Sort.W))
			}
		}
		return fmt.Sprint(val)
	case Str:
		if x.B == nil {
			return x.S
		}
		vals, ok := in.msol().Values(x.B)
		if ok {
			b := make([]byte, len(vals))
			for i := range b {
				b[i] = byte(vals[i])
			}
			return string(b)
		}
		return "?"
	}
	return show(v)
}
