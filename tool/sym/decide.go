package sym

import (
	"fmt"

	"gosymx/smt"
)

// Decision is one entry of a path's decision sequence.
type Decision struct {
	V   int64
	Neg bool // concretisation: "value != V" taken, another entry follows
}

// Input describes one verif.* value creation, in call order (for replay).
type Input struct {
	Kind  string      // int | bool | bytes | choose | string
	W     int         // bit width for int
	Sgn   bool        // signed (for rendering)
	T     *smt.Term   // scalar term (int/bool) or length term (bytes)
	Arr   *smt.Term   // bytes: content array
	Max   int64       // bytes: declared maximum
	Conc  int64       // choose: concrete value
	Bytes []*smt.Term // string: byte terms
	Label string
}

// InputValue is a concrete value for an Input taken from a model.
type InputValue struct {
	Kind  string `json:"kind"`
	Label string `json:"label,omitempty"`
	Int   int64  `json:"int"`
	Uint  uint64 `json:"uint,omitempty"`
	Len   int64  `json:"len,omitempty"`
	Hex   string `json:"hex,omitempty"` // bytes content (first min(len,cap) bytes)
}

// Failure is an assertion or panic that the solver showed reachable.
type Failure struct {
	Kind      string       `json:"kind"` // assert | panic | deadlock | blocked
	Msg       string       `json:"msg"`
	Site      string       `json:"site"`
	Harness   string       `json:"harness"`
	Inputs    []InputValue `json:"inputs"`
	Decisions []Decision   `json:"decisions"`
	Observed  []Observed   `json:"observed,omitempty"`
	Stack     []string     `json:"stack,omitempty"`
}

type Observed struct {
	Name string `json:"name"`
	Val  string `json:"val"`
}

// pathEnd is the panic payload that terminates the current path.
type pathEnd struct {
	kind string // ok | infeasible | panic | unwind | unsupported | limit | assertfail | blocked | exit
	msg  string
}

func (in *Interp) endPath(kind, msg string) {
	panic(pathEnd{kind, msg})
}

// fresh creates a new symbolic variable; names are sequence numbered so that
// re-executions of a shared prefix create identical names.
func (in *Interp) fresh(label string, s smt.Sort) *smt.Term {
	in.nvar++
	return in.ctx.Var(fmt.Sprintf("v%d_%s", in.nvar, label), s)
}

func (in *Interp) addPC(t *smt.Term) {
	if t.IsTrue() {
		return
	}
	in.pc = append(in.pc, t)
}

// syncSolver asserts pending path-condition conjuncts.
func (in *Interp) syncSolver() {
	if !in.solverOpen {
		in.sol.ResetScopes()
		in.sol.Push()
		in.solverOpen = true
		in.synced = 0
	}
	for ; in.synced < len(in.pc); in.synced++ {
		in.sol.Assert(in.pc[in.synced])
	}
}

func (in *Interp) check(extra *smt.Term) smt.Result {
	if extra.IsFalse() {
		return smt.Unsat
	}
	in.syncSolver()
	r := in.sol.CheckWith(extra)
	if r == smt.Unknown {
		in.W.noteUnknown(in)
	}
	return r
}

func (in *Interp) record(d Decision) {
	in.taken = append(in.taken, d)
	in.pos++
}

func (in *Interp) replaying() bool { return in.pos < len(in.prefix) }

func (in *Interp) nextReplay() Decision {
	d := in.prefix[in.pos]
	in.taken = append(in.taken, d)
	in.pos++
	return d
}

func (in *Interp) pushSibling(d Decision) {
	sib := make([]Decision, len(in.taken)+1)
	copy(sib, in.taken)
	sib[len(in.taken)] = d
	in.W.push(sib)
}

// Branch decides a symbolic condition; both sides are explored when feasible.
func (in *Interp) Branch(c *smt.Term) bool {
	if c.IsConst() {
		return c.Val == 1
	}
	if in.replaying() {
		d := in.nextReplay()
		if d.V == 1 {
			in.addPC(c)
			return true
		}
		in.addPC(in.ctx.Not(c))
		return false
	}
	in.ndecisions++
	if in.ndecisions > in.W.Cfg.MaxDecisions {
		in.endPath("limit", "decision limit")
	}
	rt := in.check(c)
	nc := in.ctx.Not(c)
	rf := in.check(nc)
	tOK, fOK := rt != smt.Unsat, rf != smt.Unsat
	switch {
	case tOK && fOK:
		in.pushSibling(Decision{V: 0})
		in.record(Decision{V: 1})
		in.addPC(c)
		return true
	case tOK:
		in.record(Decision{V: 1})
		in.addPC(c)
		return true
	case fOK:
		in.record(Decision{V: 0})
		in.addPC(nc)
		return false
	}
	in.endPath("infeasible", "both branch sides unsat")
	return false
}

// Choose forks n ways without involving the solver; returns the concrete choice.
func (in *Interp) Choose(n int) int {
	if n <= 1 {
		return 0
	}
	if in.replaying() {
		return int(in.nextReplay().V)
	}
	for k := n - 1; k >= 1; k-- {
		in.pushSibling(Decision{V: int64(k)})
	}
	in.record(Decision{V: 0})
	return 0
}

// Concretize forks over the feasible values of t and returns a constant.
func (in *Interp) Concretize(t *smt.Term) uint64 {
	for {
		if t.IsConst() {
			return t.Val
		}
		if in.replaying() {
			d := in.nextReplay()
			k := in.ctx.Const(t.Sort.W, uint64(d.V))
			if t.Sort.K == smt.KBool {
				k = in.ctx.BoolC(d.V != 0)
			}
			if d.Neg {
				in.addPC(in.ctx.Not(in.ctx.Eq(t, k)))
				continue
			}
			in.addPC(in.ctx.Eq(t, k))
			return uint64(d.V)
		}
		in.ndecisions++
		if in.ndecisions > in.W.Cfg.MaxDecisions {
			in.endPath("limit", "decision limit")
		}
		in.syncSolver()
		in.sol.Push()
		r := in.sol.Check()
		if r != smt.Sat {
			in.sol.Pop()
			if r == smt.Unknown {
				in.W.noteUnknown(in)
				in.endPath("unknown", "solver unknown while concretising")
			}
			in.endPath("infeasible", "no value left while concretising")
		}
		vals, ok := in.sol.Values([]*smt.Term{t})
		in.sol.Pop()
		if !ok {
			in.endPath("unknown", "cannot read model value")
		}
		v := vals[0]
		k := in.ctx.Const(t.Sort.W, v)
		if t.Sort.K == smt.KBool {
			k = in.ctx.BoolC(v != 0)
		}
		// is any other value feasible?
		ne := in.ctx.Not(in.ctx.Eq(t, k))
		if in.check(ne) != smt.Unsat {
			in.pushSibling(Decision{V: int64(v), Neg: true})
		}
		in.record(Decision{V: int64(v)})
		in.addPC(in.ctx.Eq(t, k))
		return v
	}
}

// Assume restricts the path; an infeasible assumption ends it silently.
func (in *Interp) Assume(c *smt.Term) {
	if c.IsTrue() {
		return
	}
	if c.IsFalse() {
		in.endPath("infeasible", "assume false")
	}
	if in.replaying() {
		in.nextReplay()
		in.addPC(c)
		return
	}
	if in.check(c) == smt.Unsat {
		in.endPath("infeasible", "assume infeasible")
	}
	in.record(Decision{V: 1})
	in.addPC(c)
}

// Oblige checks an implicit or explicit obligation ok; if its negation is
// feasible a failure is recorded (kind, msg).  Execution continues under ok
// when that is feasible, otherwise the path ends.
// Returns false if the caller must treat the obligation as violated on this path
// (only happens for kind=="panic" obligations, which fork instead).
func (in *Interp) Assert(ok *smt.Term, kind, msg, site string) {
	if ok.IsTrue() {
		in.W.noteSite(site, true)
		return
	}
	if in.replaying() {
		in.nextReplay()
		if ok.IsFalse() {
			in.endPath("assertfail", msg)
		}
		in.addPC(ok)
		return
	}
	in.W.noteSite(site, true)
	bad := in.ctx.Not(ok)
	var fail bool
	if ok.IsFalse() {
		fail = true
		in.syncSolver()
		in.sol.Push()
		r := in.sol.Check()
		if r == smt.Sat {
			in.reportFailure(kind, msg, site)
		} else if r == smt.Unknown {
			in.W.noteUnknown(in)
		}
		in.sol.Pop()
		in.record(Decision{V: 1})
		in.endPath("assertfail", msg)
	}
	in.syncSolver()
	in.sol.Push()
	in.sol.Assert(bad)
	r := in.sol.Check()
	if r == smt.Sat {
		fail = true
		in.reportFailure(kind, msg, site)
	} else if r == smt.Unknown {
		in.W.noteUnknown(in)
	}
	in.sol.Pop()
	in.W.noteAssert(r)
	if fail {
		if in.check(ok) == smt.Unsat {
			in.record(Decision{V: 1})
			in.endPath("assertfail", msg)
		}
		in.record(Decision{V: 1})
	} else {
		in.record(Decision{V: 0})
	}
	in.addPC(ok)
}

// reportFailure must be called right after a Sat check (model available).
func (in *Interp) reportFailure(kind, msg, site string) {
	f := Failure{Kind: kind, Msg: msg, Site: site, Harness: in.harness}
	f.Inputs = in.modelInputs()
	f.Decisions = append([]Decision{}, in.taken...)
	f.Stack = in.stackTrace()
	for _, o := range in.observes {
		f.Observed = append(f.Observed, Observed{o.name, in.evalObserved(o.val)})
	}
	in.W.addFailure(f)
}

// modelInputs evaluates all inputs created so far in the solver's current model.
func (in *Interp) modelInputs() []InputValue {
	var scal []*smt.Term
	for _, ip := range in.inputs {
		switch ip.Kind {
		case "int", "bool", "bytes":
			scal = append(scal, ip.T)
		case "string":
			scal = append(scal, ip.Bytes...)
		}
	}
	vals, ok := in.sol.Values(scal)
	if !ok {
		return nil
	}
	out := make([]InputValue, 0, len(in.inputs))
	k := 0
	for _, ip := range in.inputs {
		iv := InputValue{Kind: ip.Kind, Label: ip.Label}
		switch ip.Kind {
		case "int":
			v := vals[k]
			k++
			iv.Uint = v
			if ip.Sgn {
				iv.Int = sext64(v, ip.W)
			} else {
				iv.Int = int64(v)
			}
		case "bool":
			iv.Int = int64(vals[k])
			k++
		case "choose":
			iv.Int = ip.Conc
		case "bytes":
			n := int64(vals[k])
			k++
			iv.Len = n
			m := n
			if m > 4096 {
				m = 4096
			}
			if m < 0 {
				m = 0
			}
			sel := make([]*smt.Term, m)
			for i := range sel {
				sel[i] = in.ctx.Select(ip.Arr, in.ctx.Const(64, uint64(i)))
			}
			bv, ok := in.sol.Values(sel)
			if ok {
				b := make([]byte, m)
				for i := range b {
					b[i] = byte(bv[i])
				}
				iv.Hex = fmt.Sprintf("%x", b)
			}
		case "string":
			b := make([]byte, len(ip.Bytes))
			for i := range b {
				b[i] = byte(vals[k])
				k++
			}
			iv.Len = int64(len(b))
			iv.Hex = fmt.Sprintf("%x", b)
		}
		out = append(out, iv)
	}
	return out
}

func sext64(v uint64, w int) int64 {
	if w < 64 && v&(1<<uint(w-1)) != 0 {
		v |= ^((uint64(1) << uint(w)) - 1)
	}
	return int64(v)
}

func (in *Interp) evalObserved(v Val) string {
	switch x := v.(type) {
	case *smt.Term:
		if x.IsConst() {
			return show(x)
		}
		vals, ok := in.sol.Values([]*smt.Term{x})
		if ok {
			return fmt.Sprint(vals[0])
		}
		return "?"
	case Str:
		if x.B == nil {
			return x.S
		}
		vals, ok := in.sol.Values(x.B)
		if ok {
			b := make([]byte, len(vals))
			for i := range b {
				b[i] = byte(vals[i])
			}
			return string(b)
		}
		return "?"
	}
	return show(v)
}
