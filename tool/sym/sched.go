package sym

import (
	"fmt"
	"go/types"

	"golang.org/x/tools/go/ssa"
)

// ---- channels ----

func (in *Interp) chanSend(fr *frame, ch *Chan, v Val) {
	if ch == nil {
		for {
			in.block("send on nil channel")
		}
	}
	if ch.closed {
		panic(&goPanic{msg: "send on closed channel", val: Str{S: "send on closed channel"}, stack: in.stackTrace()})
	}
	v = copyVal(v)
	if ch.cap > 0 {
		for len(ch.buf) >= ch.cap {
			in.block(fmt.Sprintf("send on full channel #%d", ch.id))
			if ch.closed {
				panic(&goPanic{msg: "send on closed channel", val: Str{S: "send on closed channel"}})
			}
		}
		ch.buf = append(ch.buf, v)
		in.wakeBlocked()
		return
	}
	// unbuffered: hand the value over and wait until it was taken
	for len(ch.buf) > 0 { // another sender's value is pending
		in.block(fmt.Sprintf("send on channel #%d", ch.id))
	}
	ch.buf = append(ch.buf, v)
	in.wakeBlocked()
	for len(ch.buf) > 0 {
		in.block(fmt.Sprintf("send on channel #%d (no receiver)", ch.id))
		if ch.closed && len(ch.buf) > 0 {
			panic(&goPanic{msg: "send on closed channel", val: Str{S: "send on closed channel"}})
		}
	}
}

func (in *Interp) chanRecv(fr *frame, ch *Chan, commaOk bool, et types.Type) Val {
	if ch == nil {
		for {
			in.block("receive on nil channel")
		}
	}
	for len(ch.buf) == 0 && !ch.closed {
		ch.recvWaiting++
		in.block(fmt.Sprintf("receive on channel #%d", ch.id))
		ch.recvWaiting--
	}
	var v Val
	ok := false
	if len(ch.buf) > 0 {
		v = ch.buf[0]
		ch.buf = ch.buf[1:]
		ok = true
		in.wakeBlocked()
	} else {
		v = in.zero(et)
	}
	if commaOk {
		return Tuple{v, in.ctx.BoolC(ok)}
	}
	return v
}

func (in *Interp) chanClose(ch *Chan) {
	if ch == nil {
		panic(&goPanic{msg: "close of nil channel", val: Str{S: "close of nil channel"}})
	}
	if ch.closed {
		panic(&goPanic{msg: "close of closed channel", val: Str{S: "close of closed channel"}, stack: in.stackTrace()})
	}
	ch.closed = true
	in.wakeBlocked()
}

func (in *Interp) selectOp(fr *frame, ins *ssa.Select) Val {
	type st struct {
		ch   *Chan
		send Val
		dir  types.ChanDir
		et   types.Type
	}
	states := make([]st, len(ins.States))
	for i, s := range ins.States {
		states[i].ch, _ = fr.get(s.Chan).(*Chan)
		states[i].dir = s.Dir
		states[i].et = s.Chan.Type().Underlying().(*types.Chan).Elem()
		if s.Send != nil {
			states[i].send = fr.get(s.Send)
		}
	}
	result := func(chosen int, recv Val, recvOk bool) Val {
		r := Tuple{in.ctx.Const(64, uint64(int64(chosen))), in.ctx.BoolC(recvOk)}
		for i, s := range states {
			if s.dir == types.RecvOnly {
				if i == chosen && recv != nil {
					r = append(r, recv)
				} else {
					r = append(r, in.zero(s.et))
				}
			}
		}
		return r
	}
	for {
		for i, s := range states {
			if s.ch == nil {
				continue
			}
			if s.dir == types.RecvOnly {
				if len(s.ch.buf) > 0 {
					v := s.ch.buf[0]
					s.ch.buf = s.ch.buf[1:]
					in.wakeBlocked()
					return result(i, v, true)
				}
				if s.ch.closed {
					return result(i, nil, false)
				}
			} else {
				if s.ch.closed {
					panic(&goPanic{msg: "send on closed channel", val: Str{S: "send on closed channel"}})
				}
				if s.ch.cap > 0 && len(s.ch.buf) < s.ch.cap {
					s.ch.buf = append(s.ch.buf, copyVal(s.send))
					in.wakeBlocked()
					return result(i, nil, false)
				}
				if s.ch.cap == 0 && s.ch.recvWaiting > 0 && len(s.ch.buf) == 0 {
					s.ch.buf = append(s.ch.buf, copyVal(s.send))
					in.wakeBlocked()
					return result(i, nil, false)
				}
			}
		}
		if !ins.Blocking {
			return result(-1, nil, false)
		}
		for _, s := range states {
			if s.ch != nil && s.dir == types.RecvOnly {
				s.ch.recvWaiting++
			}
		}
		in.block("select")
		for _, s := range states {
			if s.ch != nil && s.dir == types.RecvOnly {
				s.ch.recvWaiting--
			}
		}
	}
}

// ---- mutexes (sync.Mutex / sync.RWMutex modelled on the address of the struct cell) ----

func (in *Interp) mutex(p *Val) *mutexState {
	m := in.mutexes[p]
	if m == nil {
		m = &mutexState{}
		in.mutexes[p] = m
	}
	return m
}

func (in *Interp) lock(p *Val, what string) {
	m := in.mutex(p)
	for m.held || m.readers > 0 {
		why := what + " Lock"
		if m.held && m.writer == in.cur {
			why = what + " Lock (self-deadlock: already held by this goroutine)"
		}
		in.block(why)
	}
	m.held = true
	m.writer = in.cur
}

func (in *Interp) tryLock(p *Val) bool {
	m := in.mutex(p)
	if m.held || m.readers > 0 {
		return false
	}
	m.held = true
	m.writer = in.cur
	return true
}

func (in *Interp) unlock(p *Val) {
	m := in.mutex(p)
	if !m.held {
		panic(&goPanic{msg: "sync: unlock of unlocked mutex", val: Str{S: "sync: unlock of unlocked mutex"}, stack: in.stackTrace()})
	}
	m.held = false
	m.writer = nil
	in.wakeBlocked()
}

func (in *Interp) rlock(p *Val) {
	m := in.mutex(p)
	for m.held {
		why := "RWMutex RLock"
		if m.writer == in.cur {
			why = "RWMutex RLock (self-deadlock: write-locked by this goroutine)"
		}
		in.block(why)
	}
	m.readers++
}

func (in *Interp) runlock(p *Val) {
	m := in.mutex(p)
	if m.readers <= 0 {
		panic(&goPanic{msg: "sync: RUnlock of unlocked RWMutex", val: Str{S: "sync: RUnlock of unlocked RWMutex"}, stack: in.stackTrace()})
	}
	m.readers--
	in.wakeBlocked()
}
