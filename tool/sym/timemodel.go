package sym

import (
	"golang.org/x/tools/go/ssa"
)

func registerTimeModels(e *Engine) {
	_ = ssa.Function{}
}
