package sym

import (
	"go/types"

	"golang.org/x/tools/go/ssa"

	"gosymx/smt"
)

// Clock model: the harness clock is a symbolic non-decreasing millisecond instant.
// time.Now() returns a Time whose `ext` field carries the instant; UnixMilli /
// UnixNano read it back.  verif.ClockAdvance(d) moves it forward.
func (in *Interp) clockNow() *smt.Term {
	if t, ok := in.side["clock"].(*smt.Term); ok {
		return t
	}
	t := in.ctx.Const(64, 1_700_000_000_000)
	in.side["clock"] = t
	return t
}

func registerTimeModels(e *Engine) {
	e.reg("time.Now", func(in *Interp, fr *frame, fn *ssa.Function, a []Val) Val {
		st := in.zero(fn.Signature.Results().At(0).Type()).(Struct)
		tt := fn.Signature.Results().At(0).Type().Underlying().(*types.Struct)
		for i := 0; i < tt.NumFields(); i++ {
			if tt.Field(i).Name() == "ext" {
				st[i] = in.clockNow()
			}
		}
		return st
	})
	ext := func(in *Interp, fn *ssa.Function, v Val) *smt.Term {
		tt := fn.Signature.Recv().Type().Underlying().(*types.Struct)
		for i := 0; i < tt.NumFields(); i++ {
			if tt.Field(i).Name() == "ext" {
				return v.(Struct)[i].(*smt.Term)
			}
		}
		panic(unsupported("time.Time without ext"))
	}
	e.reg("(time.Time).UnixMilli", func(in *Interp, fr *frame, fn *ssa.Function, a []Val) Val {
		return ext(in, fn, a[0])
	})
	e.reg(verifPkg+".ClockAdvance", func(in *Interp, fr *frame, fn *ssa.Function, a []Val) Val {
		in.side["clock"] = in.ctx.Bin(smt.OpAdd, in.clockNow(), a[0].(*smt.Term))
		return nil
	})
	// crypto/rand.Read fills the buffer with fresh symbolic bytes and succeeds.
	e.reg("crypto/rand.Read", func(in *Interp, fr *frame, fn *ssa.Function, a []Val) Val {
		b := a[0].(BSlice)
		if b.Cell != nil {
			src := new(Val)
			*src = BArr{in.fresh("rand", smt.Arr)}
			in.writeBytes(b.Cell, b.Off, src, in.ctx.Const(64, 0), nil, b.Len)
		}
		return Tuple{b.Len, Iface{}}
	})
}
