package sym

import (
	"go/types"

	"golang.org/x/tools/go/ssa"

	"gosymx/smt"
)

// Clock model: the harness clock is a symbolic non-decreasing millisecond instant.
// time.Now() returns a Time whose `ext` field carries the instant; UnixMilli /
// UnixNano read it back.  verif.ClockAdvance(d) moves it forward.
func (in *Interp) clockNow() *smt.Term {
	if t, ok := in.side["clock"].(*smt.Term); ok {
		return t
	}
	t := in.ctx.Const(64, 1_700_000_000_000)
	in.side["clock"] = t
	return t
}

func registerTimeModels(e *Engine) {
	e.reg("time.Now", func(in *Interp, fr *frame, fn *ssa.Function, a []Val) Val {
		st := in.zero(fn.Signature.Results().At(0).Type()).(Struct)
		tt := fn.Signature.Results().At(0).Type().Underlying().(*types.Struct)
		for i := 0; i < tt.NumFields(); i++ {
			if tt.Field(i).Name() == "ext" {
				st[i] = in.clockNow()
			}
		}
		return st
	})
	ext := func(in *Interp, fn *ssa.Function, v Val) *smt.Term {
		tt := fn.Signature.Recv().Type().Underlying().(*types.Struct)
		for i := 0; i < tt.NumFields(); i++ {
			if tt.Field(i).Name() == "ext" {
				return v.(Struct)[i].(*smt.Term)
			}
		}
		panic(unsupported("time.Time without ext"))
	}
	e.reg("(time.Time).UnixMilli", func(in *Interp, fr *frame, fn *ssa.Function, a []Val) Val {
		return ext(in, fn, a[0])
	})
	e.reg(verifPkg+".ClockAdvance", func(in *Interp, fr *frame, fn *ssa.Function, a []Val) Val {
		in.side["clock"] = in.ctx.Bin(smt.OpAdd, in.clockNow(), a[0].(*smt.Term))
		return nil
	})
	// crypto/rand.Read fills the buffer with fresh symbolic bytes and succeeds.
	e.reg("crypto/rand.Read", func(in *Interp, fr *frame, fn *ssa.Function, a []Val) Val {
		b := a[0].(BSlice)
		if b.Cell != nil {
			src := new(Val)
			*src = BArr{in.fresh("rand", smt.Arr)}
			in.writeBytes(b.Cell, b.Off, src, in.ctx.Const(64, 0), nil, b.Len)
		}
		return Tuple{b.Len, Iface{}}
	})
}

// ---- utils.Timer model (the contract of property C19, assumed by C07/C08/C12) ----
// A timer is a record (callback, period, due instant, armed, interval).  It fires when
// the harness clock is moved to or past its due instant by verif.SleepUntil; Stop
// disarms; Refresh re-arms one period from now whether it was pending, fired or stopped.

type timerRec struct {
	rt       *rtimer // set for a runtime (time.Timer) candidate in SleepUntil
	cell     *Val
	fn       Val
	period   *smt.Term
	due      *smt.Term
	armed    bool
	interval bool
	fired    int
}

func (in *Interp) tnow() *smt.Term {
	if t, ok := in.side["tclock"].(*smt.Term); ok {
		return t
	}
	return in.ctx.Const(64, 0)
}

func (in *Interp) timers() []*timerRec {
	t, _ := in.side["timers"].([]*timerRec)
	return t
}

func (in *Interp) findTimer(p *Val) *timerRec {
	for _, r := range in.timers() {
		if r.cell == p {
			return r
		}
	}
	return nil
}

func registerTimerModels(e *Engine) {
	utilsPkg := repoMod + "/utils"
	mk := func(interval bool) ModelFn {
		return func(in *Interp, fr *frame, fn *ssa.Function, a []Val) Val {
			cell := new(Val)
			*cell = in.zero(deref(fn.Signature.Results().At(0).Type()))
			d := a[1].(*smt.Term)
			c := in.ctx
			// time.NewTimer with a non-positive duration fires immediately
			dd := c.Ite(c.Bin(smt.OpSLt, d, c.Const(64, 0)), c.Const(64, 0), d)
			r := &timerRec{cell: cell, fn: a[0], period: d, due: c.Bin(smt.OpAdd, in.tnow(), dd), armed: true, interval: interval}
			in.side["timers"] = append(in.timers(), r)
			return cell
		}
	}
	// real: after verif.RealTimers() the repository's own utils/timer.go is executed (on top
	// of the runtime time.Timer model below) instead of the contract-level model
	real := func(m ModelFn) ModelFn {
		return func(in *Interp, fr *frame, fn *ssa.Function, a []Val) Val {
			if in.side["realtimers"] != nil {
				delete(in.modelsUsed, fn.String())
				return in.callSSA(fr, fn, a, nil)
			}
			return m(in, fr, fn, a)
		}
	}
	reg := e.reg
	e2 := struct{ reg func(string, ModelFn) }{func(n string, m ModelFn) { reg(n, real(m)) }}
	e2.reg(utilsPkg+".SetTimeout", mk(false))
	e2.reg(utilsPkg+".SetTimeOut", mk(false))
	e2.reg(utilsPkg+".SetInterval", mk(true))
	stop := func(in *Interp, p Val) {
		q := nilCheck(in, p)
		if r := in.findTimer(q); r != nil {
			r.armed = false
		}
	}
	clear := func(in *Interp, fr *frame, fn *ssa.Function, a []Val) Val {
		if q, _ := a[0].(*Val); q != nil {
			stop(in, q)
		}
		return nil
	}
	e2.reg(utilsPkg+".ClearTimeout", clear)
	e2.reg(utilsPkg+".ClearInterval", clear)
	e2.reg("(*"+utilsPkg+".Timer).Stop", func(in *Interp, fr *frame, fn *ssa.Function, a []Val) Val {
		stop(in, a[0])
		return nil
	})
	e.reg("(*"+utilsPkg+".Timer).Unref", func(in *Interp, fr *frame, fn *ssa.Function, a []Val) Val { return nil })
	e2.reg("(*"+utilsPkg+".Timer).Refresh", func(in *Interp, fr *frame, fn *ssa.Function, a []Val) Val {
		q := nilCheck(in, a[0])
		if r := in.findTimer(q); r != nil {
			c := in.ctx
			dd := c.Ite(c.Bin(smt.OpSLt, r.period, c.Const(64, 0)), c.Const(64, 0), r.period)
			r.due = c.Bin(smt.OpAdd, in.tnow(), dd)
			r.armed = true
		}
		return q
	})
	v := func(name string, m ModelFn) { e.reg(verifPkg+"."+name, m) }
	v("Now", func(in *Interp, fr *frame, fn *ssa.Function, a []Val) Val { return in.tnow() })
	v("RunTimed", func(in *Interp, fr *frame, fn *ssa.Function, a []Val) Val {
		in.call(fr, a[0], nil)
		return nil
	})
	v("Settle", func(in *Interp, fr *frame, fn *ssa.Function, a []Val) Val {
		in.quiesce()
		return nil
	})
	v("ArmedTimers", func(in *Interp, fr *frame, fn *ssa.Function, a []Val) Val {
		n := 0
		for _, r := range in.timers() {
			if r.armed {
				n++
			}
		}
		return in.ctx.Const(64, uint64(n))
	})
	// SleepUntil(t): fire every armed timer due at or before t, in due order, then set the clock to t.
	v("SleepUntil", func(in *Interp, fr *frame, fn *ssa.Function, a []Val) Val {
		c := in.ctx
		t := a[0].(*smt.Term)
		in.Assume(c.Bin(smt.OpSLe, in.tnow(), t))
		for iter := 0; ; iter++ {
			if iter > in.W.Cfg.Unwind {
				in.W.noteUnwind("verif.SleepUntil timer firings")
				in.endPath("unwind", "too many timer firings in one SleepUntil")
			}
			var cands []*timerRec
			for _, r := range in.timers() {
				if r.armed && in.Branch(c.Bin(smt.OpSLe, r.due, t)) {
					cands = append(cands, r)
				}
			}
			for _, r := range in.rtimers() {
				if r.armed && in.Branch(c.Bin(smt.OpSLe, r.due, t)) {
					cands = append(cands, &timerRec{rt: r, due: r.due})
				}
			}
			if len(cands) == 0 {
				break
			}
			k := 0
			if len(cands) > 1 {
				k = in.Choose(len(cands))
				in.inputs = append(in.inputs, Input{Kind: "choose", Conc: int64(k), Label: "timer-order"})
			}
			r := cands[k]
			for j, o := range cands {
				if j != k {
					in.Assume(c.Bin(smt.OpSLe, r.due, o.due))
				}
			}
			in.side["tclock"] = r.due
			if r.rt != nil {
				// the runtime timer expires: its tick becomes receivable on C (at most one
				// pending tick, as with Go >= 1.23 timer channels); goroutines waiting on C run
				r.rt.armed = false
				if len(r.rt.ch.buf) == 0 {
					r.rt.ch.buf = append(r.rt.ch.buf, in.zero(r.rt.tickType))
				}
				in.wakeBlocked()
				in.quiesce()
				continue
			}
			r.fired++
			if r.interval {
				r.due = c.Bin(smt.OpAdd, r.due, r.period)
			} else {
				r.armed = false
			}
			in.call(fr, r.fn, nil)
			in.quiesce()
		}
		in.side["tclock"] = t
		return nil
	})
}


// ---- runtime timer model: time.NewTimer / (*time.Timer).Stop / Reset / C ----
// Used by the C19 harnesses (verif.RealTimers()), which execute the repository's own
// utils/timer.go.  Semantics of Go >= 1.23 timer channels (the module's go directive is
// 1.24): the channel holds at most the one tick of the current arming; Stop and Reset report
// true iff the timer was still armed or its tick had not been received yet, and in either
// case no stale tick can be received after they return.
type rtimer struct {
	cell     *Val
	ch       *Chan
	due      *smt.Term
	armed    bool
	tickType types.Type
}

func (in *Interp) rtimers() []*rtimer {
	t, _ := in.side["rtimers"].([]*rtimer)
	return t
}

func (in *Interp) findRTimer(p *Val) *rtimer {
	for _, r := range in.rtimers() {
		if r.cell == p {
			return r
		}
	}
	panic(unsupported("time.Timer not created by time.NewTimer"))
}

func (in *Interp) rtimerStop(r *rtimer) bool {
	was := r.armed
	r.armed = false
	if len(r.ch.buf) > 0 {
		r.ch.buf = nil
		was = true
	}
	return was
}

func registerRuntimeTimerModels(e *Engine) {
	e.reg(verifPkg+".RealTimers", func(in *Interp, fr *frame, fn *ssa.Function, a []Val) Val {
		in.side["realtimers"] = true
		return nil
	})
	e.reg(verifPkg+".Goroutines", func(in *Interp, fr *frame, fn *ssa.Function, a []Val) Val {
		n := 0
		for _, t := range in.threads[1:] {
			if t.state != tDone {
				n++
			}
		}
		return in.ctx.Const(64, uint64(n))
	})
	due := func(in *Interp, d *smt.Term) *smt.Term {
		c := in.ctx
		dd := c.Ite(c.Bin(smt.OpSLt, d, c.Const(64, 0)), c.Const(64, 0), d)
		return c.Bin(smt.OpAdd, in.tnow(), dd)
	}
	e.reg("time.NewTimer", func(in *Interp, fr *frame, fn *ssa.Function, a []Val) Val {
		pt := fn.Signature.Results().At(0).Type()
		st := deref(pt).Underlying().(*types.Struct)
		cell := new(Val)
		z := in.zero(deref(pt)).(Struct)
		in.nchan++
		ch := &Chan{cap: 1, id: in.nchan}
		var tick types.Type
		for i := 0; i < st.NumFields(); i++ {
			if st.Field(i).Name() == "C" {
				z[i] = ch
				tick = st.Field(i).Type().Underlying().(*types.Chan).Elem()
			}
		}
		*cell = z
		in.preemptPoint()
		r := &rtimer{cell: cell, ch: ch, due: due(in, a[0].(*smt.Term)), armed: true, tickType: tick}
		in.side["rtimers"] = append(in.rtimers(), r)
		return cell
	})
	e.reg("(*time.Timer).Stop", func(in *Interp, fr *frame, fn *ssa.Function, a []Val) Val {
		r := in.findRTimer(nilCheck(in, a[0]))
		in.preemptPoint()
		return in.ctx.BoolC(in.rtimerStop(r))
	})
	e.reg("(*time.Timer).Reset", func(in *Interp, fr *frame, fn *ssa.Function, a []Val) Val {
		r := in.findRTimer(nilCheck(in, a[0]))
		in.preemptPoint()
		was := in.rtimerStop(r)
		r.due = due(in, a[1].(*smt.Term))
		r.armed = true
		return in.ctx.BoolC(was)
	})
}
