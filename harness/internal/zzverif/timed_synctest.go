//go:build goexperiment.synctest

package zzverif

import (
	"sync/atomic"
	"testing/synctest"
	"time"
)

var timedStart time.Time
var inBubble bool

// RunTimed runs fn under virtual time (native: a synctest bubble; symbolic: the timer model).
func RunTimed(fn func()) {
	synctest.Run(func() {
		inBubble = true
		timedStart = time.Now()
		defer func() { inBubble = false }()
		fn()
		for _, c := range cleanups {
			c()
		}
		cleanups = nil
		synctest.Wait()
	})
}

// Now is the virtual time in nanoseconds since RunTimed started.
func Now() int64 { return int64(time.Since(timedStart)) }

// SleepUntil advances virtual time to t (ns since start), letting every timer due by then fire.
func SleepUntil(t int64) {
	d := time.Duration(t) - time.Since(timedStart)
	if d < 0 {
		panic(AssumeFailed{"SleepUntil into the past"})
	}
	if d > 0 {
		time.Sleep(d)
	}
	synctest.Wait()
}

// Settle lets every goroutine of the bubble run until it blocks.
func Settle() {
	if inBubble {
		// synctest allows one Wait at a time: a second goroutine (a callback that "takes its
		// time" while the harness goroutine settles) sleeps for a virtual millisecond instead,
		// which also returns only once every other goroutine of the bubble is blocked
		if !settling.CompareAndSwap(false, true) {
			time.Sleep(time.Millisecond)
			return
		}
		synctest.Wait()
		settling.Store(false)
		return
	}
	Quiesce()
}

var settling atomic.Bool
