// Package zzverif is the harness API.  Under the symbolic executor (gosymx) every
// function below is intercepted and its body is never run; the bodies here are
// the *native* implementation used when a solver assignment is replayed against
// the real compiled code (go test -overlay ... with VERIF_REPLAY=<file>).
package zzverif

import (
	"encoding/hex"
	"encoding/json"
	"fmt"
	"os"
	"runtime"
	"strings"
	"sync"
	"syscall"
	"time"
)

type inputValue struct {
	Kind  string `json:"kind"`
	Label string `json:"label"`
	Int   int64  `json:"int"`
	Uint  uint64 `json:"uint"`
	Len   int64  `json:"len"`
	Hex   string `json:"hex"`
}

type replayFile struct {
	Harness string       `json:"harness"`
	Tier    int          `json:"tier"`
	Inputs  []inputValue `json:"inputs"`
}

// AssumeFailed is the panic payload when the replayed assignment violates an Assume.
type AssumeFailed struct{ Msg string }

var (
	mu       sync.Mutex
	rf       replayFile
	pos      int
	loaded   bool
	Failures []string
	Observed []string
	tier     int
	// Exhausted is set when the harness asked for more inputs than the assignment holds.
	Exhausted bool
)

// Load reads the replay assignment; called by the native test driver.
func Load(path string) (string, error) {
	b, err := os.ReadFile(path)
	if err != nil {
		return "", err
	}
	mu.Lock()
	defer mu.Unlock()
	rf = replayFile{}
	if err := json.Unmarshal(b, &rf); err != nil {
		return "", err
	}
	pos, loaded, Failures, Observed, Exhausted = 0, true, nil, nil, false
	resetInjection()
	tier = rf.Tier
	return rf.Harness, nil
}

func next(kind string) inputValue {
	mu.Lock()
	defer mu.Unlock()
	if !loaded {
		panic("zzverif: no replay assignment loaded (harnesses only run under gosymx or the replay driver)")
	}
	for pos < len(rf.Inputs) && rf.Inputs[pos].Kind == "choose" && strings.HasPrefix(rf.Inputs[pos].Label, "inject:") {
		pos++ // scheduling entries are consumed by the yield hook, not by the harness
	}
	if pos >= len(rf.Inputs) {
		// The executor stopped creating inputs here (its path ended at a failure).
		// Keep going with zero values so that the native run can finish.
		Exhausted = true
		return inputValue{Kind: kind}
	}
	v := rf.Inputs[pos]
	pos++
	if v.Kind != kind && !(kind == "int" && v.Kind == "choose") && !(kind == "choose" && v.Kind == "int") {
		panic(AssumeFailed{fmt.Sprintf("replay desynchronised: want %s got %s (#%d)", kind, v.Kind, pos-1)})
	}
	return v
}

// Symbolic reports whether the code runs under the symbolic executor.
func Symbolic() bool { return false }

// Tier is 0 for quick, 1 for thorough (a concrete value in both worlds).
func Tier() int { return tier }

func Int64() int64   { return next("int").Int }
func Uint64() uint64 { return next("int").Uint }
func Byte() byte     { return byte(next("int").Uint) }
func Bool() bool     { return next("bool").Int != 0 }

// Int returns an arbitrary value in [lo, hi].
func Int(lo, hi int) int {
	v := int(next("int").Int)
	if Exhausted {
		return lo
	}
	if v < lo || v > hi {
		panic(AssumeFailed{"Int out of range"})
	}
	return v
}

// Choose returns an arbitrary value in [0, n); the executor forks n ways.
func Choose(n int) int {
	if n <= 1 {
		return 0
	}
	return int(next("choose").Int)
}

// Concretize is the identity natively; the executor forks over feasible values.
func Concretize(x int) int { return x }

func realize(v inputValue) []byte {
	n := v.Len
	pre, _ := hex.DecodeString(v.Hex)
	if n < 0 {
		panic(AssumeFailed{"negative length"})
	}
	if n <= 1<<20 {
		b := make([]byte, n)
		copy(b, pre)
		return b
	}
	// huge symbolic length: reserve address space only
	b, err := syscall.Mmap(-1, 0, int(n), syscall.PROT_READ|syscall.PROT_WRITE, syscall.MAP_ANON|syscall.MAP_PRIVATE|syscall.MAP_NORESERVE)
	if err != nil {
		panic(AssumeFailed{"native=impossible(length): " + err.Error()})
	}
	copy(b, pre)
	return b
}

// Bytes returns an arbitrary byte slice of length 0..max (cap == len).
func Bytes(max int) []byte { return realize(next("bytes")) }

// BytesN returns an arbitrary byte slice of exactly n bytes.
func BytesN(n int) []byte { return realize(next("bytes")) }

// String returns an arbitrary string of length 0..max.
func String(max int) string {
	v := next("string")
	b, _ := hex.DecodeString(v.Hex)
	return string(b)
}

// StringN returns an arbitrary string of exactly n bytes.
func StringN(n int) string {
	v := next("string")
	b, _ := hex.DecodeString(v.Hex)
	return string(b)
}

func Assume(b bool) {
	if !b {
		panic(AssumeFailed{"assume violated by replay assignment"})
	}
}

func Assert(b bool, msg string) {
	if !b {
		mu.Lock()
		Failures = append(Failures, msg)
		mu.Unlock()
		fmt.Printf("VERIF-ASSERT-FAIL %s\n", msg)
	}
}

func Unreachable(msg string) { Assert(false, "unreachable: "+msg) }

func Observe(name string, v any) {
	mu.Lock()
	Observed = append(Observed, fmt.Sprintf("%s=%v", name, v))
	mu.Unlock()
}

// Quiesce lets every other goroutine run until it blocks.
func Quiesce() {
	for i := 0; i < 50; i++ {
		runtime.Gosched()
	}
	time.Sleep(3 * time.Millisecond)
	for i := 0; i < 50; i++ {
		runtime.Gosched()
	}
}

// TakeTime is what a slow application callback or listener does: natively it yields the
// processor many times (it must not block: inside a virtual-time bubble a goroutine that
// holds a lock others wait for can neither sleep nor wait for the bubble to settle);
// symbolically every other goroutine runs until it blocks.
func TakeTime() {
	for i := 0; i < 400; i++ {
		runtime.Gosched()
	}
}

// Event registers an environment event that the executor may inject at any yield
// point; natively events are fired by the replay driver's schedule (see inject.go).
func Event(name string, fn func()) { registerEvent(name, fn) }

// InjectBudget sets the maximal number of injected events per path.
func InjectBudget(n int) { mu.Lock(); injBudget = n; mu.Unlock() }

// Yield marks an explicit yield point.
func Yield(label string) { yieldPoint("harness:" + label) }

// RealTimers: from here on the harness runs the repository's own utils/timer.go (symbolic
// runs: on the runtime time.Timer model; native runs always do).
func RealTimers() { goroutineBase = runtime.NumGoroutine() }

var goroutineBase int

// Goroutines is the number of goroutines alive besides the harness's own (symbolic runs:
// interpreted goroutines that have not finished; native runs: growth of
// runtime.NumGoroutine since RealTimers was called).
func Goroutines() int { return runtime.NumGoroutine() - goroutineBase }

// Blocked / HeldLocks are executor-only observations (0 natively).
func Blocked() int   { return 0 }
func HeldLocks() int { return 0 }

// ClockAdvance moves the harness clock forward by d milliseconds (symbolic runs: the
// time model; native runs: really wait).  d == 0 natively means "within the same
// millisecond as far as possible".
func ClockAdvance(d int64) {
	if d > 0 {
		start := time.Now().UnixMilli()
		for time.Now().UnixMilli() < start+d {
			time.Sleep(200 * time.Microsecond)
		}
	}
}

// ClockAlign waits for the start of a fresh millisecond (native only).
func ClockAlign() {
	start := time.Now().UnixMilli()
	for time.Now().UnixMilli() == start {
	}
}

// ---- JSON inspection (symbolic runs: the recording model of encoding/json) ----

func jsonField(b []byte, key string) (json.RawMessage, bool) {
	var m map[string]json.RawMessage
	if json.Unmarshal(b, &m) != nil {
		return nil, false
	}
	v, ok := m[key]
	return v, ok
}

func JSONHas(b []byte, key string) bool { _, ok := jsonField(b, key); return ok }

func JSONInt(b []byte, key string) int64 {
	v, ok := jsonField(b, key)
	var n int64
	if !ok || json.Unmarshal(v, &n) != nil {
		return 0x7fffffffffffff01
	}
	return n
}

func JSONString(b []byte, key string) string {
	v, ok := jsonField(b, key)
	var s string
	if !ok || json.Unmarshal(v, &s) != nil {
		return "\x00<no such json string>"
	}
	return s
}

// JSONIsList reports whether the member exists and is a JSON list (not null).
func JSONIsList(b []byte, key string) bool {
	v, ok := jsonField(b, key)
	return ok && len(v) > 0 && v[0] == '['
}

func JSONStrings(b []byte, key string) []string {
	v, ok := jsonField(b, key)
	var s []string
	if !ok || json.Unmarshal(v, &s) != nil {
		return nil
	}
	return s
}

var cleanups []func()

// Cleanup registers fn to run when a RunTimed harness ends (lets helper goroutines exit
// so that the virtual-time bubble can finish); a no-op under the symbolic executor.
func Cleanup(fn func()) { cleanups = append(cleanups, fn) }

// JSONText returns the Go string whose JSON encoding is b (ok=false if b is not one JSON string literal).
func JSONText(b []byte) (string, bool) {
	var s string
	if err := json.Unmarshal(b, &s); err != nil {
		return "", false
	}
	return s, true
}

// PreemptBudget allows the symbolic scheduler up to n preemptions at atomic operations of
// spawned goroutines (no native counterpart: native runs use stress instead).
func PreemptBudget(n int) {}

// PreemptPoint marks a place where a modelled blocking operation (e.g. a network write)
// may let another goroutine run (symbolic scheduler only).
func PreemptPoint() {}

// SpawnBudget allows the symbolic scheduler to start up to n new goroutines at once, before
// their creator continues (no native counterpart).
func SpawnBudget(n int) {}
