package zzverif

import (
	"strings"

	rlog "github.com/zishang520/engine.io/v2/log"
)

// Native side of atomic event injection.  The symbolic executor may run one pending
// event inline at any yield point (a debug log call of the code under test, or an
// explicit verif.Yield); it records "inject:<event>@..." with the ordinal of the yield
// point.  Natively the same ordinal is reached through the verif-tagged hook
// log.VerifYield, and the event is run inline there.

type eventRec struct {
	name  string
	fn    func()
	fired bool
}

var (
	events      []*eventRec
	injBudget   int
	inInjection bool
	yieldCount  int
	yieldCounts = map[string]int{}
)

func init() {
	rlog.VerifYield = func(prefix, message string) { yieldPoint("log:" + message) }
}

func resetInjection() {
	events, injBudget, inInjection, yieldCount = nil, 0, false, 0
	yieldCounts = map[string]int{}
}

func registerEvent(name string, fn func()) {
	mu.Lock()
	events = append(events, &eventRec{name: name, fn: fn})
	mu.Unlock()
}

func yieldPoint(kind string) {
	mu.Lock()
	if injBudget <= 0 || inInjection || !loaded {
		mu.Unlock()
		return
	}
	pending := false
	for _, e := range events {
		if !e.fired {
			pending = true
		}
	}
	if !pending {
		mu.Unlock()
		return
	}
	yieldCount++
	yieldCounts[kind]++
	var ev *eventRec
	// the next scheduled injection (the first inject entry not yet consumed), wherever it
	// sits in the input list: other goroutines may consume ordinary inputs meanwhile
	for ip := pos; ip < len(rf.Inputs) && ev == nil; ip++ {
		v := rf.Inputs[ip]
		if v.Kind != "choose" || !strings.HasPrefix(v.Label, "inject:") {
			if ip == pos {
				continue
			}
			continue
		}
		name := strings.TrimPrefix(v.Label, "inject:")
		key := ""
		if i := strings.Index(name, "@"); i >= 0 {
			name, key = name[:i], name[i+1:]
		}
		if key == kind && int(v.Int) == yieldCounts[kind] {
			for _, e := range events {
				if e.name == name && !e.fired {
					ev = e
					break
				}
			}
			if ev != nil {
				rf.Inputs = append(rf.Inputs[:ip:ip], rf.Inputs[ip+1:]...)
				ev.fired = true
				injBudget--
				inInjection = true
			}
		}
		break // only the first pending injection entry is eligible
	}
	mu.Unlock()
	if ev != nil {
		ev.fn()
		mu.Lock()
		inInjection = false
		mu.Unlock()
	}
}
