package zzverif

import (
	"strings"

	rlog "github.com/zishang520/engine.io/v2/log"
)

// Native side of atomic event injection.  The symbolic executor may run one pending
// event inline at any yield point (a debug log call of the code under test, or an
// explicit verif.Yield); it records "inject:<event>@..." with the ordinal of the yield
// point.  Natively the same ordinal is reached through the verif-tagged hook
// log.VerifYield, and the event is run inline there.

type eventRec struct {
	name  string
	fn    func()
	fired bool
}

var (
	events      []*eventRec
	injBudget   int
	inInjection bool
	yieldCount  int
)

func init() {
	rlog.VerifYield = func(prefix, message string) { yieldPoint("log") }
}

func resetInjection() {
	events, injBudget, inInjection, yieldCount = nil, 0, false, 0
}

func registerEvent(name string, fn func()) {
	mu.Lock()
	events = append(events, &eventRec{name: name, fn: fn})
	mu.Unlock()
}

func yieldPoint(kind string) {
	mu.Lock()
	if injBudget <= 0 || inInjection || !loaded {
		mu.Unlock()
		return
	}
	pending := false
	for _, e := range events {
		if !e.fired {
			pending = true
		}
	}
	if !pending {
		mu.Unlock()
		return
	}
	yieldCount++
	var ev *eventRec
	if pos < len(rf.Inputs) {
		v := rf.Inputs[pos]
		if v.Kind == "choose" && strings.HasPrefix(v.Label, "inject:") && int(v.Int) == yieldCount {
			name := strings.TrimPrefix(v.Label, "inject:")
			if i := strings.Index(name, "@"); i >= 0 {
				name = name[:i]
			}
			for _, e := range events {
				if e.name == name && !e.fired {
					ev = e
					break
				}
			}
			if ev != nil {
				pos++
				ev.fired = true
				injBudget--
				inInjection = true
			}
		}
	}
	mu.Unlock()
	if ev != nil {
		ev.fn()
		mu.Lock()
		inInjection = false
		mu.Unlock()
	}
}
