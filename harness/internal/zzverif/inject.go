package zzverif

var events = map[string]func(){}

func registerEvent(name string, fn func()) {
	mu.Lock()
	events[name] = fn
	mu.Unlock()
}

func yieldPoint(kind string) {}
