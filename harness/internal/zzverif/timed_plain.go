//go:build !goexperiment.synctest

package zzverif

import "time"

var timedStart time.Time

func RunTimed(fn func()) { timedStart = time.Now(); fn() }
func Now() int64         { return int64(time.Since(timedStart)) }
func SleepUntil(t int64) {
	if d := time.Duration(t) - time.Since(timedStart); d > 0 {
		time.Sleep(d)
	}
	Quiesce()
}
func Settle() { Quiesce() }
