package zzmodels

// Models of the webtransport-go library calls the repository makes (symbolic runs only):
// a Conn on an in-memory stream has no QUIC session behind it.

import (
	"context"
	"net"
	"net/http"
	"reflect"
	"unsafe"

	"github.com/quic-go/quic-go/http3"

	verif "github.com/zishang520/engine.io/v2/internal/zzverif"
	wt "github.com/zishang520/webtransport-go"
)

// SessionCloseCalls counts CloseWithError calls on modelled sessions.
var SessionCloseCalls int

//verif:model (*github.com/zishang520/webtransport-go.Session).CloseWithError
func mSessionCloseWithError(s *wt.Session, code wt.SessionErrorCode, msg string) error {
	SessionCloseCalls++
	return nil
}

//verif:model (*github.com/zishang520/webtransport-go.Server).Upgrade
func mWtServerUpgrade(s *wt.Server, w http.ResponseWriter, r *http.Request) (*wt.Session, error) {
	return &wt.Session{}, nil
}

//verif:model (*github.com/zishang520/webtransport-go.Session).RemoteAddr
func mWtRemoteAddr(s *wt.Session) net.Addr { return FakeAddr{} }

// stubQConn: the QUIC connection of a stub session; only the addresses are ever asked for.
type stubQConn struct{ http3.Connection }

func (*stubQConn) RemoteAddr() net.Addr { return FakeAddr{} }
func (*stubQConn) LocalAddr() net.Addr  { return FakeAddr{} }

// AcceptedStream is the bidirectional stream the next AcceptStream call returns.
var AcceptedStream wt.Stream

//verif:model (*github.com/zishang520/webtransport-go.Session).AcceptStream
func mWtAcceptStream(s *wt.Session, ctx context.Context) (wt.Stream, error) {
	return AcceptedStream, nil
}

// StubSession gives a Conn on an in-memory stream a session object whose CloseWithError
// is harmless: symbolically the model above ignores its receiver; natively a zero Session
// is marked as already closed (its unexported closeErr is set), so the library's
// CloseWithError returns at once instead of touching the missing QUIC stream.
func StubSession() *wt.Session {
	if verif.Symbolic() {
		return nil
	}
	s := &wt.Session{}
	f := reflect.ValueOf(s).Elem().FieldByName("closeErr")
	reflect.NewAt(f.Type(), unsafe.Pointer(f.UnsafeAddr())).Elem().Set(reflect.ValueOf(error(&modelErr{"session closed (stub)"})))
	// a peer address, so that a real session object can be built on the stub (socket.Construct caches it)
	q := reflect.ValueOf(s).Elem().FieldByName("qconn")
	reflect.NewAt(q.Type(), unsafe.Pointer(q.UnsafeAddr())).Elem().Set(reflect.ValueOf(&stubQConn{}))
	return s
}
