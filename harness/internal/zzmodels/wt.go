package zzmodels

// Models of the webtransport-go library calls the repository makes (symbolic runs only):
// a Conn on an in-memory stream has no QUIC session behind it.

import (
	"context"
	"net"
	"net/http"

	wt "github.com/zishang520/webtransport-go"
)

// SessionCloseCalls counts CloseWithError calls on modelled sessions.
var SessionCloseCalls int

//verif:model (*github.com/zishang520/webtransport-go.Session).CloseWithError
func mSessionCloseWithError(s *wt.Session, code wt.SessionErrorCode, msg string) error {
	SessionCloseCalls++
	return nil
}

//verif:model (*github.com/zishang520/webtransport-go.Server).Upgrade
func mWtServerUpgrade(s *wt.Server, w http.ResponseWriter, r *http.Request) (*wt.Session, error) {
	return &wt.Session{}, nil
}

//verif:model (*github.com/zishang520/webtransport-go.Session).RemoteAddr
func mWtRemoteAddr(s *wt.Session) net.Addr { return FakeAddr{} }

// AcceptedStream is the bidirectional stream the next AcceptStream call returns.
var AcceptedStream wt.Stream

//verif:model (*github.com/zishang520/webtransport-go.Session).AcceptStream
func mWtAcceptStream(s *wt.Session, ctx context.Context) (wt.Stream, error) {
	return AcceptedStream, nil
}
