package zzmodels

// A model of the gorilla/websocket connection for symbolic runs (plain Go, executed by
// the symbolic executor in place of the library; //verif:model binds each function to
// its callee).  State lives in side tables keyed by the *websocket.Conn pointer.  The
// model implements the documented contract the repository relies on: messages are
// delivered in order, a message larger than the read limit set with SetReadLimit fails the
// read (as gorilla does with close code 1009), writes are recorded.

import (
	"bytes"
	"io"
	"net"
	"net/http"

	ws "github.com/gorilla/websocket"
	verif "github.com/zishang520/engine.io/v2/internal/zzverif"
)

type WsMsg struct {
	Mt   int
	Data []byte
}

type WsState struct {
	Limit  int64
	In     []WsMsg // what the client sends, in order
	inPos  int
	Out    []WsMsg // what the server wrote
	Closed bool
	wake   chan struct{}
	writing bool
}

var WsStates = map[*ws.Conn]*WsState{}
var WsLastConn *ws.Conn
var WsPending []WsMsg // frames queued by the harness for the next accepted connection

func WsOf(c *ws.Conn) *WsState {
	s := WsStates[c]
	if s == nil {
		s = &WsState{wake: make(chan struct{}, 16)}
		WsStates[c] = s
	}
	return s
}

//verif:model (*github.com/gorilla/websocket.Upgrader).Upgrade
func mWsUpgrade(u *ws.Upgrader, w http.ResponseWriter, r *http.Request, h http.Header) (*ws.Conn, error) {
	c := &ws.Conn{}
	s := WsOf(c)
	s.In = WsPending
	WsPending = nil
	WsLastConn = c
	return c, nil
}

//verif:model (*github.com/gorilla/websocket.Conn).SetReadLimit
func mWsSetReadLimit(c *ws.Conn, limit int64) { WsOf(c).Limit = limit }

//verif:model (*github.com/gorilla/websocket.Conn).RemoteAddr
func mWsRemoteAddr(c *ws.Conn) net.Addr { return FakeAddr{} }

//verif:model (*github.com/gorilla/websocket.Conn).EnableWriteCompression
func mWsEnableWriteCompression(c *ws.Conn, enable bool) {}

var errWsReadLimit = &modelErr{"websocket: read limit exceeded"}
var errWsClosed = &modelErr{"websocket: close 1006 (abnormal closure)"}

//verif:model (*github.com/gorilla/websocket.Conn).NextReader
func mWsNextReader(c *ws.Conn) (int, io.Reader, error) {
	s := WsOf(c)
	for s.inPos >= len(s.In) && !s.Closed {
		<-s.wake // the peer is silent
	}
	if s.Closed {
		return -1, nil, errWsClosed
	}
	m := s.In[s.inPos]
	s.inPos++
	if s.Limit > 0 && int64(len(m.Data)) > s.Limit {
		s.Closed = true
		return -1, nil, errWsReadLimit
	}
	return m.Mt, bytes.NewReader(m.Data), nil
}

type wsWriter struct {
	s   *WsState
	mt  int
	buf []byte
}

// gorilla panics when a second writer is opened while one is still open on another goroutine
const concurrentWrite = "concurrent write to websocket connection"

func (w *wsWriter) Write(p []byte) (int, error) { w.buf = append(w.buf, p...); return len(p), nil }
func (w *wsWriter) Close() error {
	verif.PreemptPoint() // the frame goes out on the network here: a blocking write
	w.s.Out = append(w.s.Out, WsMsg{w.mt, w.buf})
	w.s.writing = false
	return nil
}

//verif:model (*github.com/gorilla/websocket.Conn).NextWriter
func mWsNextWriter(c *ws.Conn, mt int) (io.WriteCloser, error) {
	s := WsOf(c)
	if s.Closed {
		return nil, errWsClosed
	}
	if s.writing {
		panic(concurrentWrite)
	}
	s.writing = true
	return &wsWriter{s: s, mt: mt}, nil
}

//verif:model (*github.com/gorilla/websocket.Conn).WriteMessage
func mWsWriteMessage(c *ws.Conn, mt int, data []byte) error {
	s := WsOf(c)
	s.Out = append(s.Out, WsMsg{mt, append([]byte(nil), data...)})
	return nil
}

var wsPrepared = map[*ws.PreparedMessage]WsMsg{}

//verif:model github.com/gorilla/websocket.NewPreparedMessage
func mWsNewPreparedMessage(mt int, data []byte) (*ws.PreparedMessage, error) {
	pm := &ws.PreparedMessage{}
	wsPrepared[pm] = WsMsg{mt, append([]byte(nil), data...)}
	return pm, nil
}

//verif:model (*github.com/gorilla/websocket.Conn).WritePreparedMessage
func mWsWritePreparedMessage(c *ws.Conn, pm *ws.PreparedMessage) error {
	s := WsOf(c)
	if s.Closed {
		return errWsClosed
	}
	s.Out = append(s.Out, wsPrepared[pm])
	return nil
}

type modelErr struct{ s string }

func (e *modelErr) Error() string { return e.s }

// FakeAddr is the peer address reported by modelled connections.
type FakeAddr struct{}

func (FakeAddr) Network() string { return "udp" }
func (FakeAddr) String() string  { return "192.0.2.7:4433" }

// WsCloseCalls counts Close calls on modelled gorilla connections.
var WsCloseCalls int

//verif:model (*github.com/gorilla/websocket.Conn).Close
func mWsConnClose(c *ws.Conn) error {
	WsCloseCalls++
	WsOf(c).Closed = true
	return nil
}
