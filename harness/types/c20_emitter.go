package types

import (
	"sync"

	verif "github.com/zishang520/engine.io/v2/internal/zzverif"
)

// C20 emitter: a script of registrations / removals / emits on the real emmiter (over
// the real types.Map and types.Slice code) against a reference list of registrations.

var c20Log []int // ids of listener invocations, in order

func c20f0(...any) { c20Log = append(c20Log, 0) }
func c20f1(...any) { c20Log = append(c20Log, 1) }
func c20f2(...any) { c20Log = append(c20Log, 2) }

var c20Fns = [3]Listener{c20f0, c20f1, c20f2}

type c20Reg struct {
	fn   int
	once bool
}

// reference removal: exactly one registration of fn disappears.  Which one is not
// fixed by the statement when both a permanent and a one-shot registration of the same
// function exist; refs keeps the candidates and the harness accepts either outcome
// where they differ observably (tracked through `alt`).
func refRemoveFirst(regs []c20Reg, fn int) ([]c20Reg, bool) {
	for i, r := range regs {
		if r.fn == fn {
			return append(append([]c20Reg(nil), regs[:i]...), regs[i+1:]...), true
		}
	}
	return regs, false
}

func refEmit(regs []c20Reg) (calls []int, after []c20Reg) {
	for _, r := range regs {
		calls = append(calls, r.fn)
		if !r.once {
			after = append(after, r)
		}
	}
	return
}

func VerifH_C20_emitter_script() {
	e := NewEventEmitter()
	var regs []c20Reg
	const evt = EventName("x")
	steps := 3 + verif.Tier()
	for step := 0; step < steps; step++ {
		fn := verif.Choose(2)
		switch verif.Choose(5) {
		case 0:
			e.On(evt, c20Fns[fn])
			regs = append(regs, c20Reg{fn, false})
		case 1:
			e.Once(evt, c20Fns[fn])
			regs = append(regs, c20Reg{fn, true})
		case 2:
			// remove: only exercised when the registrations of fn are all of one sort,
			// so that "exactly one registration removed" has one observable meaning
			perm, one := 0, 0
			for _, r := range regs {
				if r.fn == fn {
					if r.once {
						one++
					} else {
						perm++
					}
				}
			}
			if perm > 0 && one > 0 {
				continue
			}
			got := e.RemoveListener(evt, c20Fns[fn])
			var want bool
			regs, want = refRemoveFirst(regs, fn)
			verif.Assert(got == want, "RemoveListener reports whether a registration was removed")
		case 3:
			got := e.RemoveAllListeners(evt)
			_ = got
			regs = nil
		case 4:
			c20Log = nil
			e.Emit(evt, 1)
			want, after := refEmit(regs)
			regs = after
			verif.Assert(len(c20Log) == len(want), "Emit calls every registered listener exactly once")
			if len(c20Log) == len(want) {
				for i := range want {
					verif.Assert(c20Log[i] == want[i], "Emit calls listeners in registration order")
				}
			}
		}
		verif.Assert(e.ListenerCount(evt) == len(regs), "ListenerCount equals the number of live registrations")
	}
}

// A permanent and a one-shot registration of the same function: after the one-shot ran,
// the permanent one must still be called by later emits.
func VerifH_C20_emitter_on_once_same_fn() {
	e := NewEventEmitter()
	const evt = EventName("x")
	onFirst := verif.Bool()
	if onFirst {
		e.On(evt, c20f0)
		e.Once(evt, c20f0)
	} else {
		e.Once(evt, c20f0)
		e.On(evt, c20f0)
	}
	c20Log = nil
	e.Emit(evt)
	verif.Assert(len(c20Log) == 2, "first emit calls both registrations")
	c20Log = nil
	e.Emit(evt)
	verif.Assert(len(c20Log) == 1, "later emits call the permanent registration exactly once")
	verif.Assert(e.ListenerCount(evt) == 1, "one live registration left")
}

// nil listeners are ignored and never make a later removal panic.
func VerifH_C20_emitter_nil_listener() {
	e := NewEventEmitter()
	const evt = EventName("x")
	switch verif.Choose(3) {
	case 0:
		e.On(evt, nil)
	case 1:
		e.On(evt, c20f0, nil, c20f1)
	case 2:
		e.Once(evt, nil, c20f1)
	}
	e.RemoveListener(evt, nil)
	e.RemoveListener(evt, c20f2)
	got := e.RemoveListener(evt, c20f1)
	_ = got
	c20Log = nil
	e.Emit(evt)
	for _, v := range c20Log {
		verif.Assert(v == 0, "only the remaining listener is called")
	}
}

// Listeners that add / remove listeners while the emit is in progress: the emit in
// progress calls exactly the listeners registered when it started.
func VerifH_C20_emitter_reentrant() {
	e := NewEventEmitter()
	const evt = EventName("x")
	mode := verif.Choose(4)
	var self Listener
	self = func(...any) {
		c20Log = append(c20Log, 9)
		switch mode {
		case 0:
			e.On(evt, c20f2) // added during emit: not called by this emit
		case 1:
			e.RemoveListener(evt, c20f1) // removed during emit: still called by this emit
		case 2:
			e.RemoveListener(evt, self)
		case 3:
			e.RemoveAllListeners(evt)
		}
	}
	pos := verif.Choose(3)
	ls := []Listener{c20f0, c20f1}
	var order []int
	for i := 0; i <= 2; i++ {
		if i == pos {
			if verif.Bool() {
				e.On(evt, self)
			} else {
				e.Once(evt, self)
			}
			order = append(order, 9)
		}
		if i < 2 {
			if verif.Bool() {
				e.On(evt, ls[i])
			} else {
				e.Once(evt, ls[i]) // a one-shot registration is a registration like any other for this emit
			}
			order = append(order, i)
		}
	}
	c20Log = nil
	e.Emit(evt)
	verif.Assert(len(c20Log) == 3, "emit in progress calls the three listeners registered at its start, once each")
	if len(c20Log) == 3 {
		for i := range order {
			verif.Assert(c20Log[i] == order[i], "registration order")
		}
	}
}

// A Once listener runs at most once overall even when two goroutines emit concurrently
// (symbolically: up to 2 preemptions at atomic operations of the emitting goroutines;
// natively: stress).
func VerifH_C20_once_concurrent_emit() {
	if !verif.Symbolic() {
		for round := 0; round < 2000; round++ {
			e := NewEventEmitter()
			var mu sync.Mutex
			n := 0
			e.Once("x", func(...any) { mu.Lock(); n++; mu.Unlock() })
			var wg sync.WaitGroup
			wg.Add(2)
			go func() { defer wg.Done(); e.Emit("x") }()
			go func() { defer wg.Done(); e.Emit("x") }()
			wg.Wait()
			if n > 1 {
				verif.Assert(false, "a Once listener runs at most once overall")
				return
			}
		}
		return
	}
	e := NewEventEmitter()
	n := 0
	e.Once("x", func(...any) { n++ })
	verif.PreemptBudget(2)
	go func() { e.Emit("x") }()
	go func() { e.Emit("x") }()
	verif.Settle()
	verif.PreemptBudget(0)
	verif.Assert(n <= 1, "a Once listener runs at most once overall")
	verif.Assert(n == 1, "and it does run")
}
