package types

// C20: types.Slice / types.Set -- one operation from an arbitrary state against a
// reference model on plain values, plus aliasing probes.  Injected into package
// types through a build overlay; never written to /repo.

import (
	verif "github.com/zishang520/engine.io/v2/internal/zzverif"
)

// arbitrary container state: n elements with symbolic values, spare capacity 0..2.
func c20State(maxN int) (*Slice[int], []int) {
	n := verif.Concretize(verif.Int(0, maxN))
	spare := verif.Concretize(verif.Int(0, 2))
	backing := make([]int, n, n+spare)
	for i := range backing {
		backing[i] = int(verif.Int64())
	}
	s := NewSlice[int]()
	s.Replace(backing)
	ref := append([]int(nil), backing...)
	return s, ref
}

// caller-owned argument slice: length 0..2 with spare capacity 0..2, symbolic content.
func c20Arg() []int {
	n := verif.Concretize(verif.Int(0, 2))
	spare := verif.Concretize(verif.Int(0, 2))
	a := make([]int, n, n+spare)
	for i := range a {
		a[i] = int(verif.Int64())
	}
	return a
}

func sameInts(got, want []int, what string) {
	verif.Assert(len(got) == len(want), what+": length")
	if len(got) != len(want) {
		return
	}
	for i := range got {
		verif.Assert(got[i] == want[i], what+": element")
	}
}

// aliasProbe: the caller reuses its own slice after the call; the container must not change.
func aliasProbe(s *Slice[int], arg []int, ref []int, what string) {
	for i := range arg {
		arg[i] = arg[i] + 1
	}
	full := arg[:cap(arg)]
	for i := range full {
		full[i] = full[i] ^ 0x5a5a
	}
	arg = append(arg, 777)
	sameInts(s.All(), ref, what+": container unchanged after the caller reuses its slice")
}

func refSpliceOK(n, start, del int) bool { return start >= 0 && start <= n && del >= 0 }

func VerifH_C20_slice_push_unshift() {
	s, ref := c20State(3)
	arg := c20Arg()
	saved := append([]int(nil), arg...)
	if verif.Bool() {
		n := s.Push(arg...)
		ref = append(ref, saved...)
		verif.Assert(n == len(ref), "Push returns the new length")
		sameInts(s.All(), ref, "Push post-state")
		aliasProbe(s, arg, ref, "Push")
	} else {
		n := s.Unshift(arg...)
		ref = append(append([]int(nil), saved...), ref...)
		verif.Assert(n == len(ref), "Unshift returns the new length")
		sameInts(s.All(), ref, "Unshift post-state")
		aliasProbe(s, arg, ref, "Unshift")
	}
}

func VerifH_C20_slice_pop_shift_get_set() {
	s, ref := c20State(3)
	switch verif.Choose(4) {
	case 0:
		v, err := s.Pop()
		if len(ref) == 0 {
			verif.Assert(err != nil, "Pop on empty reports an error")
		} else {
			verif.Assert(err == nil && v == ref[len(ref)-1], "Pop returns the last element")
			ref = ref[:len(ref)-1]
		}
	case 1:
		v, err := s.Shift()
		if len(ref) == 0 {
			verif.Assert(err != nil, "Shift on empty reports an error")
		} else {
			verif.Assert(err == nil && v == ref[0], "Shift returns the first element")
			ref = ref[1:]
		}
	case 2:
		i := int(verif.Int64())
		v, err := s.Get(i)
		if i < 0 || i >= len(ref) {
			verif.Assert(err != nil, "Get with a bad index reports an error")
		} else {
			verif.Assert(err == nil && v == ref[i], "Get returns the element")
		}
	case 3:
		i := int(verif.Int64())
		x := int(verif.Int64())
		err := s.Set(i, x)
		if i < 0 || i >= len(ref) {
			verif.Assert(err != nil, "Set with a bad index reports an error")
		} else {
			verif.Assert(err == nil, "Set succeeds")
			ref[i] = x
		}
	}
	sameInts(s.All(), ref, "post-state")
	verif.Assert(s.Len() == len(ref), "Len")
}

func VerifH_C20_slice_slice_splice() {
	s, ref := c20State(3)
	a, b := int(verif.Int64()), int(verif.Int64())
	if verif.Bool() {
		got, err := s.Slice(a, b)
		if a < 0 || b > len(ref) || a > b {
			verif.Assert(err != nil, "Slice with a bad range reports an error")
		} else {
			verif.Assert(err == nil, "Slice succeeds")
			sameInts(got, ref[a:b], "Slice result")
			if len(got) > 0 {
				got[0] = got[0] + 1 // result must be a copy
			}
		}
		sameInts(s.All(), ref, "Slice leaves the container unchanged")
		return
	}
	arg := c20Arg()
	saved := append([]int(nil), arg...)
	removed, err := s.Splice(a, b, arg...)
	if !refSpliceOK(len(ref), a, b) {
		// invalid index or count: an error (never a panic) and no change; a negative
		// count may alternatively be treated as zero (JavaScript semantics)
		if err != nil {
			sameInts(s.All(), ref, "failed Splice leaves the container unchanged")
			return
		}
		verif.Assert(a >= 0 && a <= len(ref), "Splice with a bad start index reports an error")
		b = 0
	}
	verif.Assert(err == nil, "valid Splice succeeds")
	d := b
	if d > len(ref)-a {
		d = len(ref) - a
	}
	sameInts(removed, ref[a:a+d], "Splice removed elements")
	nref := append([]int(nil), ref[:a]...)
	nref = append(nref, saved...)
	nref = append(nref, ref[a+d:]...)
	sameInts(s.All(), nref, "Splice post-state")
	aliasProbe(s, arg, nref, "Splice")
}

func VerifH_C20_slice_range_and_splice() {
	s, ref := c20State(3)
	hit := int(verif.Int64()) // index at which the callback asks for a splice
	st, dc := int(verif.Int64()), int(verif.Int64())
	arg := c20Arg()
	saved := append([]int(nil), arg...)
	rev := verif.Bool()
	visited := 0
	removed, err := s.RangeAndSplice(func(v int, i int) (bool, int, int, []int) {
		verif.Assert(i >= 0 && i < len(ref) && v == ref[i], "callback sees the element at its index")
		visited++
		return i == hit, st, dc, arg
	}, rev)
	if hit < 0 || hit >= len(ref) {
		verif.Assert(err == nil && removed == nil, "no splice requested")
		verif.Assert(visited == len(ref), "every element visited")
		sameInts(s.All(), ref, "unchanged")
		return
	}
	if !refSpliceOK(len(ref), st, dc) {
		if err != nil {
			sameInts(s.All(), ref, "failed RangeAndSplice leaves the container unchanged")
			return
		}
		verif.Assert(st >= 0 && st <= len(ref), "RangeAndSplice with a bad start index reports an error")
		dc = 0
	}
	verif.Assert(err == nil, "valid RangeAndSplice succeeds")
	d := dc
	if d > len(ref)-st {
		d = len(ref) - st
	}
	sameInts(removed, ref[st:st+d], "removed elements")
	nref := append([]int(nil), ref[:st]...)
	nref = append(nref, saved...)
	nref = append(nref, ref[st+d:]...)
	sameInts(s.All(), nref, "post-state")
	aliasProbe(s, arg, nref, "RangeAndSplice")
}

func VerifH_C20_slice_predicates() {
	s, ref := c20State(3)
	k := int(verif.Int64())
	pred := func(v int) bool { return v < k }
	switch verif.Choose(5) {
	case 0:
		got := s.Filter(pred)
		var want []int
		for _, v := range ref {
			if pred(v) {
				want = append(want, v)
			}
		}
		sameInts(got, want, "Filter")
	case 1:
		s.Remove(pred)
		for i, v := range ref {
			if pred(v) {
				ref = append(append([]int(nil), ref[:i]...), ref[i+1:]...)
				break
			}
		}
	case 2:
		s.RemoveAll(pred)
		var want []int
		for _, v := range ref {
			if !pred(v) {
				want = append(want, v)
			}
		}
		ref = want
	case 3:
		got := s.FindIndex(pred)
		want := -1
		for i, v := range ref {
			if pred(v) {
				want = i
				break
			}
		}
		verif.Assert(got == want, "FindIndex")
	case 4:
		rev := verif.Bool()
		stop := int(verif.Int64())
		var seen []int
		s.Range(func(v int, i int) bool {
			seen = append(seen, v)
			return i != stop
		}, rev)
		var want []int
		if rev {
			for i := len(ref) - 1; i >= 0; i-- {
				want = append(want, ref[i])
				if i == stop {
					break
				}
			}
		} else {
			for i := 0; i < len(ref); i++ {
				want = append(want, ref[i])
				if i == stop {
					break
				}
			}
		}
		sameInts(seen, want, "Range visits")
	}
	sameInts(s.All(), ref, "post-state")
}

func VerifH_C20_slice_all_clear() {
	s, ref := c20State(3)
	switch verif.Choose(3) {
	case 0:
		got := s.All()
		sameInts(got, ref, "All")
		if len(got) > 0 {
			got[0]++
		}
		sameInts(s.All(), ref, "All returns a copy")
	case 1:
		s.Clear()
		verif.Assert(s.Len() == 0, "Clear empties")
		ref = nil
	case 2:
		got := s.AllAndClear()
		sameInts(got, ref, "AllAndClear result")
		verif.Assert(s.Len() == 0, "AllAndClear empties")
		s.Push(5)
		sameInts(got, ref, "AllAndClear result does not alias the container")
		return
	}
	sameInts(s.All(), ref, "post-state")
}

// Set[string] over a 3-key domain plus a symbolic key.
func VerifH_C20_set_ops() {
	dom := [3]string{"a", "b", "c"}
	in := [3]bool{verif.Bool(), verif.Bool(), verif.Bool()}
	s := NewSet[string]()
	for i, k := range dom {
		if in[i] {
			s.Add(k)
		}
	}
	k := verif.Choose(3)
	switch verif.Choose(4) {
	case 0:
		verif.Assert(s.Add(dom[k]), "Add")
		in[k] = true
	case 1:
		verif.Assert(s.Delete(dom[k]), "Delete")
		in[k] = false
	case 2:
		verif.Assert(s.Has(dom[k]) == in[k], "Has")
	case 3:
		s.Clear()
		in = [3]bool{}
	}
	n := 0
	for i, kk := range dom {
		verif.Assert(s.Has(kk) == in[i], "membership")
		if in[i] {
			n++
		}
	}
	verif.Assert(s.Len() == n, "Len")
	verif.Assert(len(s.Keys()) == n, "Keys")
	all := s.All()
	all["zz"] = NULL
	verif.Assert(s.Len() == n, "All returns a copy")
}

// resultProbe: a slice RETURNED by the container must not share storage with it: a later
// Push must not change the returned slice, and writing to the returned slice (including its
// spare capacity) must not change the container.
func resultProbe(s *Slice[int], res []int, what string) {
	saved := append([]int(nil), res...)
	s.Push(4242, 4343)
	sameInts(res, saved, what+": a later Push does not change a slice returned earlier")
	cont := s.All()
	full := res[:cap(res)]
	for i := range full {
		full[i] = full[i] ^ 0x3c3c
	}
	sameInts(s.All(), cont, what+": writing to a returned slice does not change the container")
}

func VerifH_C20_slice_results_independent() {
	s, ref := c20State(3)
	a, b := int(verif.Int64()), int(verif.Int64())
	switch verif.Choose(6) {
	case 0:
		res, err := s.Splice(a, b)
		if err == nil {
			resultProbe(s, res, "Splice")
		}
	case 1:
		hit := int(verif.Int64())
		res, err := s.RangeAndSplice(func(_ int, i int) (bool, int, int, []int) { return i == hit, a, b, nil })
		if err == nil && res != nil {
			resultProbe(s, res, "RangeAndSplice")
		}
	case 2:
		res, err := s.Slice(a, b)
		if err == nil {
			resultProbe(s, res, "Slice")
		}
	case 3:
		resultProbe(s, s.All(), "All")
	case 4:
		resultProbe(s, s.AllAndClear(), "AllAndClear")
	case 5:
		resultProbe(s, s.Filter(func(v int) bool { return v < a }), "Filter")
	}
	_ = ref
}

// VerifH_C20_slice_push_spread_fresh: Push(xs...) with a caller-owned slice (spare capacity
// or not) onto a Slice that has never been written, then the caller changes xs or appends to
// it: the container's contents do not change (it never shares storage with the caller).
func VerifH_C20_slice_push_spread_fresh() {
	s := NewSlice[int]()
	if verif.Bool() {
		s = &Slice[int]{}
	}
	n := 1 + verif.Choose(3)
	xs := make([]int, n, n+verif.Choose(2))
	for i := range xs {
		xs[i] = 10 + i
	}
	s.Push(xs...)
	xs[0] = 99
	xs = append(xs, 77)
	s.Push(5)
	verif.Assert(s.Len() == n+1, "length")
	for i := 0; i < n; i++ {
		v, err := s.Get(i)
		verif.Assert(err == nil && v == 10+i, "the container's elements are unaffected by what the caller does to its own slice")
	}
	v, err := s.Get(n)
	verif.Assert(err == nil && v == 5, "and a later Push lands after them")
	verif.Assert(xs[n] == 77, "nor does the container write into the caller's spare capacity")
}
