package types

import (
	"net/http"
	"net/url"
	"regexp"

	verif "github.com/zishang520/engine.io/v2/internal/zzverif"
)

type corsWriter struct {
	hdr    http.Header
	status []int
	writes int
}

func (w *corsWriter) Header() http.Header {
	if w.hdr == nil {
		w.hdr = http.Header{}
	}
	return w.hdr
}
func (w *corsWriter) WriteHeader(c int)         { w.status = append(w.status, c) }
func (w *corsWriter) Write(b []byte) (int, error) { w.writes++; return len(b), nil }

func refOriginAllowed(origin string, policy any) bool {
	switch v := policy.(type) {
	case string:
		return origin == v
	case bool:
		return v
	case []any:
		for _, x := range v {
			if refOriginAllowed(origin, x) {
				return true
			}
		}
	}
	return false
}

func hasToken(list, tok string) bool {
	start := 0
	for i := 0; i <= len(list); i++ {
		if i == len(list) || list[i] == ',' {
			t := list[start:i]
			for len(t) > 0 && t[0] == ' ' {
				t = t[1:]
			}
			for len(t) > 0 && t[len(t)-1] == ' ' {
				t = t[:len(t)-1]
			}
			if t == tok {
				return true
			}
			start = i + 1
		}
	}
	return false
}

// VerifH_C17_cors: the CORS middleware for every option shape (string, '*', list, nested
// list, bool), credentials, preflightContinue, success status, an arbitrary request Origin
// of up to 3 bytes and the request methods OPTIONS / GET / POST.
func VerifH_C17_cors() {
	o := &Cors{}
	var policy any
	switch verif.Choose(7) {
	case 0:
		policy = "*"
	case 1:
		policy = "ab"
	case 2:
		policy = []any{"ab", "xyz"}
	case 3:
		policy = []any{[]any{"q"}, "ab"}
	case 4:
		policy = true
	case 5:
		policy = false
	case 6:
		policy = nil // defaults to '*'
	}
	o.Origin = policy
	o.Credentials = verif.Bool()
	o.PreflightContinue = verif.Bool()
	status := int(verif.Int64())
	verif.Assume(status >= 200 && status <= 299)
	o.OptionsSuccessStatus = status
	if verif.Bool() {
		o.Methods = []string{"GET", "POST"}
	}
	mw := MiddlewareWrapper(o)
	origin := verif.String(3)
	method := [3]string{"OPTIONS", "GET", "POST"}[verif.Choose(3)]
	w := &corsWriter{}
	// an outer handler (compression or caching wrapper) may already have put a Vary field
	// on the response before the engine sees the request
	outerVary := [3]string{"", "Accept-Encoding", "*"}[verif.Choose(3)]
	if outerVary != "" {
		w.Header().Set("Vary", outerVary)
	}
	r := &http.Request{Method: method, URL: &url.URL{Path: "/engine.io/"}, Header: http.Header{}}
	ctx := NewHttpContext(w, r)
	verif.Cleanup(ctx.Flush)
	if len(origin) > 0 {
		ctx.Headers().Set("Origin", origin)
	}
	nexts := 0
	mw(ctx, func(err error) {
		verif.Assert(err == nil, "the middleware never fails")
		nexts++
	})
	acao := ctx.ResponseHeaders.Peek("Access-Control-Allow-Origin")
	vary := ctx.ResponseHeaders.Peek("Vary")
	if policy == nil {
		policy = "*"
	}
	if s, ok := policy.(string); ok && s == "*" {
		verif.Assert(acao == "*", "'*' policy answers '*'")
	} else {
		verif.Assert(acao != "*" || origin == "*", "'*' only when the policy is '*'")
		if s, ok := policy.(string); ok {
			verif.Assert(acao == s, "a fixed origin policy names that origin")
		} else if refOriginAllowed(origin, policy) {
			verif.Assert(acao == origin, "an allowed origin is reflected")
		} else {
			verif.Assert(acao != origin || origin == "false", "an origin the policy does not allow is never named")
		}
		_ = vary
	}

	cred := ctx.ResponseHeaders.Peek("Access-Control-Allow-Credentials")
	verif.Assert((cred == "true") == o.Credentials && (cred == "" || cred == "true"), "credentials header exactly when configured")
	if method == "OPTIONS" && !o.PreflightContinue {
		verif.Assert(nexts == 0, "a preflight is answered by the middleware itself")
		verif.Assert(w.writes == 1 && len(w.status) == 1 && w.status[0] == status, "with the configured success status")
		verif.Assert(w.hdr.Get("Content-Length") == "0", "and Content-Length: 0")
	} else {
		verif.Assert(nexts == 1 && w.writes == 0, "other requests are passed on exactly once, untouched")
		// the transport answers the request: what reaches the client
		ctx.SetStatusCode(200)
		ctx.Write(nil)
	}
	// on the wire (the response writer's header as sent)
	wire := ""
	for i, v := range w.hdr.Values("Vary") {
		if i > 0 {
			wire += ", "
		}
		wire += v
	}
	if s, ok := policy.(string); !(ok && s == "*") {
		verif.Assert(hasToken(wire, "Origin") || hasToken(wire, "*"), "the response as sent carries Vary: Origin whenever the allowed origin depends on the request")
	}
	verif.Assert(w.hdr.Get("Access-Control-Allow-Origin") == acao, "the response as sent carries the computed Access-Control-Allow-Origin")
}

// VerifH_C17_two_regexp_policies: two CORS policies with regular-expression origins live in
// one process (two servers, or one after the other): the same request Origin is judged by
// each policy on its own -- a verdict of one policy never leaks into the other.
func VerifH_C17_two_regexp_policies() {
	pa := &Cors{Origin: regexp.MustCompile(`^https://a\.`), Credentials: true}
	pb := &Cors{Origin: regexp.MustCompile(`^https://b\.`), Credentials: true}
	origins := [3]string{"https://a.example", "https://b.example", "https://c.example"}
	run := func(o *Cors, origin string) string {
		w := &corsWriter{}
		r := &http.Request{Method: "GET", URL: &url.URL{Path: "/engine.io/"}, Header: http.Header{}}
		ctx := NewHttpContext(w, r)
		verif.Cleanup(ctx.Flush)
		ctx.Headers().Set("Origin", origin)
		MiddlewareWrapper(o)(ctx, func(error) {})
		return ctx.ResponseHeaders.Peek("Access-Control-Allow-Origin")
	}
	first := verif.Choose(2)
	origin := origins[verif.Choose(3)]
	pol := [2]*Cors{pa, pb}
	for k := 0; k < 2; k++ {
		i := (first + k) % 2
		got := run(pol[i], origin)
		allowed := (i == 0 && origin == origins[0]) || (i == 1 && origin == origins[1])
		if allowed {
			verif.Assert(got == origin, "an origin the policy's expression matches is reflected")
		} else {
			verif.Assert(got != origin, "an origin the policy's own expression does not match is never named, whatever another policy said about it")
		}
	}
}
