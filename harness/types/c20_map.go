package types

import (
	"sync"

	verif "github.com/zishang520/engine.io/v2/internal/zzverif"
)

// VerifH_C20_map_sequential: a script of operations on types.Map against an ordinary Go
// map (single goroutine; keys from a 3-element domain so that overwrite, delete of a
// present / absent key, reload after delete and promotion of the dirty map all occur).
func VerifH_C20_map_sequential() {
	m := &Map[int, int]{}
	ref := map[int]int{}
	steps := 3 + verif.Tier()
	for s := 0; s < steps; s++ {
		k := verif.Choose(3)
		v := s + 10
		switch verif.Choose(7) {
		case 0:
			m.Store(k, v)
			ref[k] = v
		case 1:
			got, ok := m.Load(k)
			want, wok := ref[k]
			verif.Assert(ok == wok && (!ok || got == want), "Load agrees with an ordinary map")
		case 2:
			m.Delete(k)
			delete(ref, k)
		case 3:
			got, loaded := m.LoadOrStore(k, v)
			want, wok := ref[k]
			if !wok {
				ref[k] = v
				want = v
			}
			verif.Assert(loaded == wok && got == want, "LoadOrStore agrees with an ordinary map")
		case 4:
			got, loaded := m.LoadAndDelete(k)
			want, wok := ref[k]
			delete(ref, k)
			verif.Assert(loaded == wok && (!loaded || got == want), "LoadAndDelete agrees with an ordinary map")
		case 5:
			prev, loaded := m.Swap(k, v)
			want, wok := ref[k]
			ref[k] = v
			verif.Assert(loaded == wok && (!loaded || prev == want), "Swap agrees with an ordinary map")
		case 6:
			verif.Assert(m.Len() == len(ref), "Len agrees with an ordinary map")
			n := 0
			m.Range(func(key, val int) bool {
				n++
				want, wok := ref[key]
				verif.Assert(wok && want == val, "Range visits only present entries with their values")
				return true
			})
			verif.Assert(n == len(ref), "Range visits every entry once")
		}
	}
	for k := 0; k < 3; k++ {
		got, ok := m.Load(k)
		want, wok := ref[k]
		verif.Assert(ok == wok && (!ok || got == want), "final contents agree with an ordinary map")
	}
}

// VerifH_C20_map_load_during_promotion: several goroutines load a key that is present but
// still lives only in the map's dirty half; they all miss the lock-free lookup and queue
// for the lock (the harness holds it to park them); the first one's miss promotes the dirty
// half.  Every Load of a present key must find it.
func VerifH_C20_map_load_during_promotion() {
	m := &Map[string, int]{}
	if verif.Bool() {
		m.Store("old", 1)
		m.Load("old")
		m.Load("old") // promoted: "old" lives in the read half
	}
	m.Store("k", 7) // only in the dirty half
	n := 2 + verif.Tier()
	vals := make([]int, n)
	oks := make([]bool, n)
	var wg sync.WaitGroup
	m.mu.Lock()
	for i := 0; i < n; i++ {
		i := i
		wg.Add(1)
		go func() {
			defer wg.Done()
			vals[i], oks[i] = m.Load("k")
		}()
	}
	verif.Settle() // every loader has missed the lock-free lookup and waits for the lock
	m.mu.Unlock()
	wg.Wait()
	for i := 0; i < n; i++ {
		verif.Assert(oks[i] && vals[i] == 7, "a Load of a present key finds it, also while the dirty half is being promoted")
	}
}

// VerifH_C20_map_concurrent: two goroutines operate on the map while the scheduler may
// preempt either one at its atomic operations and lock acquisitions (up to 2 preemptions);
// key "k" is stored before and never deleted, so every Load of it must succeed, and the
// final contents are those of some sequential order.  Natively the same scenario is stressed.
func VerifH_C20_map_concurrent() {
	run := func(opA, opB int) (okA, okB bool, m *Map[string, int]) {
		m = &Map[string, int]{}
		m.Store("k", 7)
		var wg sync.WaitGroup
		do := func(op int, ok *bool) {
			defer wg.Done()
			*ok = true
			switch op {
			case 0:
				v, o := m.Load("k")
				*ok = o && v == 7
			case 1:
				m.Store("x", 1)
				v, o := m.Load("k")
				*ok = o && v == 7
			case 2:
				m.Load("nosuch") // a miss: may promote the dirty half
				v, o := m.Load("k")
				*ok = o && v == 7
			case 3:
				m.Store("x", 1)
				m.Delete("x")
				v, o := m.Load("k")
				*ok = o && v == 7
			}
		}
		wg.Add(2)
		go do(opA, &okA)
		go do(opB, &okB)
		wg.Wait()
		return
	}
	opA, opB := verif.Choose(4), verif.Choose(4)
	if !verif.Symbolic() {
		for round := 0; round < 2000; round++ {
			a, b, _ := run(opA, opB)
			if !a || !b {
				verif.Assert(false, "a present key is found by every concurrent Load")
				return
			}
		}
		return
	}
	verif.PreemptBudget(2)
	a, b, m := run(opA, opB)
	verif.PreemptBudget(0)
	verif.Assert(a && b, "a present key is found by every concurrent Load")
	v, ok := m.Load("k")
	verif.Assert(ok && v == 7, "and is still there afterwards")
}

// VerifH_C20_map_delete_during_promotion: two keys live only in the dirty half; one goroutine
// walks the map (which promotes the dirty half) while another deletes one key; both have
// taken their lock-free snapshot and queue for the lock (the harness holds it to park them).
// Afterwards the deleted key is gone and the other key is still there (C04 relies on this for
// the client table).
func VerifH_C20_map_delete_during_promotion() {
	m := &Map[string, int]{}
	m.Store("a", 1)
	m.Store("b", 2)
	walkFirst := verif.Bool()
	var wg sync.WaitGroup
	walk := func() { defer wg.Done(); m.Len() }
	del := func() { defer wg.Done(); m.Delete("a") }
	m.mu.Lock()
	wg.Add(2)
	if walkFirst {
		go walk()
		go del()
	} else {
		go del()
		go walk()
	}
	verif.Settle()
	m.mu.Unlock()
	wg.Wait()
	_, okA := m.Load("a")
	vB, okB := m.Load("b")
	verif.Assert(!okA, "the deleted key is gone")
	verif.Assert(okB && vB == 2, "the other key is still there")
	verif.Assert(m.Len() == 1, "and the map holds exactly it")
}
