package engine

import (
	"strings"

	"github.com/zishang520/engine.io/v2/config"
	"github.com/zishang520/engine.io/v2/transports"
	"github.com/zishang520/engine.io/v2/types"
	verif "github.com/zishang520/engine.io/v2/internal/zzverif"
)

// respondingTransport: OnRequest answers the request (as the real transports do), so
// that HandleRequest's wait for the response ends.
func respond(f *fakeTransport, ctx *types.HttpContext) {
	ctx.SetStatusCode(200)
	ctx.Write([]byte("ok"))
}

// VerifH_C05_handle_request: whole request path (middlewares, Verify, revision gate,
// handshake or dispatch to the session) against the documented answers.
func VerifH_C05_handle_request() {
	opts := config.DefaultServerOptions()
	allow3 := verif.Bool()
	opts.SetAllowEIO3(allow3)
	if verif.Bool() {
		// WebTransport enabled as well: it is never a transport of a plain HTTP request
		opts.SetTransports(types.NewSet[string](transports.POLLING, transports.WEBSOCKET, transports.WEBTRANSPORT))
	}
	hook := verif.Choose(3)
	if hook > 0 {
		opts.SetAllowRequest(func(*types.HttpContext) error {
			if hook == 2 {
				return errHook
			}
			return nil
		})
	}
	mw := verif.Choose(3) // no middleware, passing middleware, failing middleware
	ps := newProtoServer(opts)
	if mw > 0 {
		ps.Use(func(_ *types.HttpContext, next func(error)) {
			if mw == 2 {
				next(errCT)
			} else {
				next(nil)
			}
		})
	}
	c1, _ := newCtx("GET", "/engine.io/")
	c1.Query().Set("EIO", "4")
	tp := newFakeTransport(transports.POLLING, c1)
	sp := NewSocket("sidP", ps, tp, c1, 4)
	ps.Clients().Store("sidP", sp)
	base := len(tp.requests)
	rec := &evRec{}
	rec.listen(ps, "connection_error", "connection")
	srec := &evRec{}
	srec.listen(sp, "close", "message", "packet")

	method := verif.StringN([2]int{3, 4}[verif.Choose(2)])
	transport := verif.StringN([4]int{7, 9, 3, 12}[verif.Choose(4)])
	eio := verif.String(2)
	sidKind := verif.Choose(4) // absent, unknown, the polling session, present but empty (= no session named)
	ctx, w := newCtx(method, "/engine.io/")
	ctx.Query().Set("transport", transport)
	if len(eio) > 0 {
		ctx.Query().Set("EIO", eio)
	}
	switch sidKind {
	case 1:
		ctx.Query().Set("sid", "nosuch")
	case 2:
		ctx.Query().Set("sid", "sidP")
	case 3:
		ctx.Query().Set("sid", "")
	}
	noSid := sidKind == 0 || sidKind == 3
	// transports answer the requests they are given
	answer := func(c *types.HttpContext) { respond(nil, c) }
	tp.onRequest = answer
	ps.onMade = func(f *fakeTransport) { f.onRequest = answer }

	ps.HandleRequest(ctx)

	isP, isW := transport == transports.POLLING, transport == transports.WEBSOCKET
	want := 3
	if mw != 2 {
		want = refAdmit(isP || isW, false, !noSid, sidKind == 2, isP, false, strings.ToUpper(method) == "GET", isW, hook == 2)
		if want < 0 && noSid && eio != "4" && !allow3 {
			want = 5
		}
	}
	verif.Assert(w.writeCalls == 1 && len(w.status) == 1, "exactly one response")
	if want >= 0 {
		st := 400
		if want == 4 {
			st = 403
		}
		if len(w.status) == 1 && len(w.bodies) == 1 {
			verif.Assert(w.status[0] == st, "documented status")
			verif.Assert(verif.JSONInt(w.bodies[0], "code") == int64(want), "documented error code in the JSON body")
			msg := refMessage(want)
			if want == 4 {
				msg = errHook.Error()
			}
			verif.Assert(verif.JSONString(w.bodies[0], "message") == msg, "documented message in the JSON body")
		}
		verif.Assert(rec.count("connection_error") == 1, "exactly one connection_error event")
		verif.Assert(rec.count("connection") == 0, "no session created")
		verif.Assert(ps.Clients().Len() == 1 && len(ps.made) == 0, "registry unchanged")
		verif.Assert(len(tp.requests) == base, "existing session not handed the rejected request")
	} else {
		verif.Assert(rec.count("connection_error") == 0, "no connection_error for an admitted request")
		if noSid {
			verif.Assert(rec.count("connection") == 1, "one connection event")
			verif.Assert(ps.Clients().Len() == 2 && ps.ClientsCount() == 1, "one new session")
			if len(ps.made) == 1 {
				verif.Assert(len(ps.made[0].requests) == 1, "handshake request given to the new transport")
			}
		} else {
			verif.Assert(len(tp.requests) == base+1, "request dispatched to the session's transport")
			verif.Assert(ps.Clients().Len() == 1, "no new session")
		}
	}
	verif.Assert(sp.ReadyState() == "open" && len(srec.names) == 0, "existing session undisturbed")
	verif.Observe("want", want)
}
