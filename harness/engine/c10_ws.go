package engine

import (
	"bufio"
	"net"
	"net/http"
	"sync"
	"net/http/httptest"
	"strings"
	"time"

	ws "github.com/gorilla/websocket"
	"github.com/zishang520/engine.io-go-parser/packet"
	"github.com/zishang520/engine.io/v2/config"
	"github.com/zishang520/engine.io/v2/transports"
	"github.com/zishang520/engine.io/v2/types"
	"github.com/zishang520/engine.io/v2/internal/zzmodels"
	verif "github.com/zishang520/engine.io/v2/internal/zzverif"
)

// wsClient is the client side of one WebSocket connection to the engine: the gorilla
// model under the symbolic executor, a real loopback connection natively.
type wsClient struct {
	srv  *httptest.Server
	conn *ws.Conn
}

// dialWS sends the frames over a WebSocket opened with the given query to a server whose
// handler is the engine's real ServeHTTP / HandleUpgrade, and lets the server process them.
func dialWS(ps *server, query string, frames []zzmodels.WsMsg) (received []zzmodels.WsMsg) {
	if verif.Symbolic() {
		defer func() {
			if zzmodels.WsLastConn != nil {
				received = zzmodels.WsOf(zzmodels.WsLastConn).Out
			}
		}()
		zzmodels.WsPending = frames
		r := &http.Request{Method: "GET", Header: http.Header{"Connection": {"Upgrade"}, "Upgrade": {"websocket"}}, Proto: "HTTP/1.1", RemoteAddr: "192.0.2.9:999"}
		w := &fakeWriter{}
		r.URL = mustURL("/engine.io/?" + query)
		ctx := types.NewHttpContext(w, r)
		ps.HandleUpgrade(ctx)
		verif.Settle()
		return nil
	}
	srv := httptest.NewServer(http.HandlerFunc(ps.ServeHTTP))
	defer srv.Close()
	c, _, err := ws.DefaultDialer.Dial("ws"+strings.TrimPrefix(srv.URL, "http")+"/engine.io/?"+query, nil)
	if err != nil {
		panic(verif.AssumeFailed{Msg: "native websocket dial failed: " + err.Error()})
	}
	defer c.Close()
	var mu sync.Mutex
	var got []zzmodels.WsMsg
	go func() {
		for {
			mt, data, err := c.ReadMessage()
			if err != nil {
				if ce, ok := err.(*ws.CloseError); ok {
					mu.Lock()
					got = append(got, zzmodels.WsMsg{Mt: ws.CloseMessage, Data: append([]byte{byte(ce.Code >> 8), byte(ce.Code)}, ce.Text...)})
					mu.Unlock()
				}
				return
			}
			mu.Lock()
			got = append(got, zzmodels.WsMsg{mt, data})
			mu.Unlock()
		}
	}()
	defer func() { mu.Lock(); received = append([]zzmodels.WsMsg(nil), got...); mu.Unlock() }()
	for _, f := range frames {
		c.WriteMessage(f.Mt, f.Data)
		time.Sleep(20 * time.Millisecond)
	}
	time.Sleep(300 * time.Millisecond)
	return nil
}

// VerifH_C10_ws_limit: a WebSocket frame larger than the configured maximum payload is
// never delivered -- on a connection that handshakes over WebSocket AND on one that
// upgrades an existing polling session.
func VerifH_C10_ws_limit() {
	const limit = 6
	opts := config.DefaultServerOptions()
	opts.SetMaxHttpBufferSize(limit)
	ps := NewServer(opts).(*server)
	var msgs []string
	closes := 0
	ps.On("connection", func(a ...any) {
		s := a[0].(Socket)
		s.On("message", func(d ...any) { msgs = append(msgs, string(readAllOf(d[0]))) })
		s.On("close", func(...any) { closes++ })
	})
	over := verif.Bool()
	big := "4" + strings.Repeat("x", limit-1) // exactly at the limit
	if over {
		big = "4" + strings.Repeat("x", limit) // one byte above
	}
	upgradePath := verif.Bool()
	if upgradePath {
		// an existing polling session, then a WebSocket opened with its sid and promoted
		hctx, _ := newCtx("GET", "/engine.io/")
		hctx.Query().Set("transport", transports.POLLING)
		hctx.Query().Set("EIO", "4")
		_, tr := ps.Handshake(transports.POLLING, hctx)
		verif.Assume(tr != nil)
		sid := tr.Sid()
		dialWS(ps, "EIO=4&transport=websocket&sid="+sid, []zzmodels.WsMsg{{ws.TextMessage, []byte("2probe")}, {ws.TextMessage, []byte("5")}, {ws.TextMessage, []byte(big)}})
	} else {
		dialWS(ps, "EIO=4&transport=websocket", []zzmodels.WsMsg{{ws.TextMessage, []byte(big)}})
	}
	if over {
		verif.Assert(len(msgs) == 0, "a frame larger than the maximum payload is never delivered")
	} else {
		verif.Assert(len(msgs) == 1 && msgs[0] == big[1:], "a frame within the limit is delivered intact")
	}
	verif.Observe("delivered", len(msgs))
}

// VerifH_C01_ws_batch: messages the application sends on a WebSocket session (text, binary,
// pre-encoded frames, any order, 1..3) are received by the client exactly once, in order,
// with identical bytes and kind, after the open packet.
func VerifH_C01_ws_batch() {
	ps := NewServer(config.DefaultServerOptions()).(*server)
	n := verif.Choose(3) + 1
	type exp struct {
		mt   int
		data string
	}
	var want []exp
	var sends []func(Socket)
	// one pre-encoded frame shared by several sends (the option's purpose: encode once,
	// send to many): every transmission must carry the frame
	shared := &packet.Options{WsPreEncodedFrame: types.NewStringBufferString("4sh")}
	for i := 0; i < n; i++ {
		body := string(rune('a'+i)) + "z"
		switch verif.Choose(4) {
		case 3:
			want = append(want, exp{ws.TextMessage, "4sh"})
			sends = append(sends, func(s Socket) { s.Send(types.NewStringBufferString("sh"), shared, nil) })
		case 0:
			want = append(want, exp{ws.TextMessage, "4" + body})
			sends = append(sends, func(s Socket) { s.Send(types.NewStringBufferString(body), nil, nil) })
		case 1:
			want = append(want, exp{ws.BinaryMessage, body})
			sends = append(sends, func(s Socket) { s.Send(types.NewBytesBufferString(body), nil, nil) })
		case 2:
			want = append(want, exp{ws.TextMessage, "4" + body})
			sends = append(sends, func(s Socket) {
				s.Send(types.NewStringBufferString(body), &packet.Options{WsPreEncodedFrame: types.NewStringBufferString("4" + body)}, nil)
			})
		}
	}
	ps.On("connection", func(a ...any) {
		s := a[0].(Socket)
		for _, f := range sends {
			f(s)
		}
	})
	got := dialWS(ps, "EIO=4&transport=websocket", nil)
	verif.Assert(len(got) == n+1, "the open packet and every sent message arrive, nothing else")
	if len(got) == n+1 {
		verif.Assert(got[0].Mt == ws.TextMessage && len(got[0].Data) > 0 && got[0].Data[0] == '0', "the open packet comes first")
		for i, w := range want {
			verif.Assert(got[i+1].Mt == w.mt && string(got[i+1].Data) == w.data, "each message once, in order, same kind and bytes")
		}
	}
}

// VerifH_C02_ws_frames: text and binary frames a WebSocket client sends are delivered to
// the application once each, in order, intact.
func VerifH_C02_ws_frames() {
	ps := NewServer(config.DefaultServerOptions()).(*server)
	var msgs []string
	var kinds []bool
	ps.On("connection", func(a ...any) {
		s := a[0].(Socket)
		s.On("message", func(d ...any) {
			msgs = append(msgs, string(readAllOf(d[0])))
			_, isText := d[0].(*types.StringBuffer)
			kinds = append(kinds, isText)
		})
	})
	n := verif.Choose(3) + 1
	var frames []zzmodels.WsMsg
	var want []string
	var wantText []bool
	for i := 0; i < n; i++ {
		body := string(rune('a' + i))
		if verif.Bool() {
			frames = append(frames, zzmodels.WsMsg{ws.TextMessage, []byte("4" + body)})
			wantText = append(wantText, true)
		} else {
			frames = append(frames, zzmodels.WsMsg{ws.BinaryMessage, []byte(body)})
			wantText = append(wantText, false)
		}
		want = append(want, body)
	}
	dialWS(ps, "EIO=4&transport=websocket", frames)
	verif.Assert(len(msgs) == n, "every frame is delivered exactly once")
	if len(msgs) == n {
		for i := range want {
			verif.Assert(msgs[i] == want[i] && kinds[i] == wantText[i], "in order, identical bytes, same kind")
		}
	}
}

// hijackWriter lets the engine's real Upgrade run over an in-memory net.Pipe: writes on a
// pipe block until the peer reads, which is how a slow client looks to the server.
type hijackWriter struct {
	conn net.Conn
	hdr  http.Header
}

func (h *hijackWriter) Header() http.Header {
	if h.hdr == nil {
		h.hdr = http.Header{}
	}
	return h.hdr
}
func (h *hijackWriter) Write(b []byte) (int, error) { return h.conn.Write(b) }
func (h *hijackWriter) WriteHeader(int)             {}
func (h *hijackWriter) Hijack() (net.Conn, *bufio.ReadWriter, error) {
	return h.conn, bufio.NewReadWriter(bufio.NewReader(h.conn), bufio.NewWriter(h.conn)), nil
}

// VerifH_C09_ws_duplicate_probe: a client repeats the upgrade probe back to back and is
// slow to read: the server answers both probes and must not crash.  (Symbolically the two
// writer goroutines may be preempted at their atomic operations and the connection model
// panics on overlapping writers exactly as the library does; natively the exchange runs
// over an in-memory pipe whose writes block until the client reads.)
func VerifH_C09_ws_duplicate_probe() {
	ps := NewServer(config.DefaultServerOptions()).(*server)
	hctx, _ := newCtx("GET", "/engine.io/")
	hctx.Query().Set("transport", transports.POLLING)
	hctx.Query().Set("EIO", "4")
	_, tr := ps.Handshake(transports.POLLING, hctx)
	verif.Assume(tr != nil)
	query := "EIO=4&transport=websocket&sid=" + tr.Sid()
	probes := 0
	if verif.Symbolic() {
		verif.PreemptBudget(1 + verif.Tier())
		got := dialWS(ps, query, []zzmodels.WsMsg{{ws.TextMessage, []byte("2probe")}, {ws.TextMessage, []byte("2probe")}})
		verif.PreemptBudget(0)
		for _, m := range got {
			if string(m.Data) == "3probe" {
				probes++
			}
		}
	} else {
		cli, srv := net.Pipe()
		go func() {
			req, err := http.ReadRequest(bufio.NewReader(srv))
			if err != nil {
				return
			}
			ps.ServeHTTP(&hijackWriter{conn: srv}, req)
		}()
		c, _, err := ws.NewClient(cli, mustURL("ws://engine.test/engine.io/?"+query), nil, 1024, 1024)
		if err != nil {
			panic(verif.AssumeFailed{Msg: "native websocket handshake over the pipe failed: " + err.Error()})
		}
		c.WriteMessage(ws.TextMessage, []byte("2probe"))
		c.WriteMessage(ws.TextMessage, []byte("2probe"))
		time.Sleep(300 * time.Millisecond) // a slow reader
		c.SetReadDeadline(time.Now().Add(2 * time.Second))
		for i := 0; i < 2; i++ {
			_, data, err := c.ReadMessage()
			if err == nil && string(data) == "3probe" {
				probes++
			}
		}
		c.Close()
	}
	verif.Assert(probes == 2, "both probe pings are answered")
}

// VerifH_C05_ws_refused: a handshake that is refused only after the WebSocket connection
// was accepted (revision not allowed) is closed with a close message carrying the
// documented text, creates no session and emits one connection_error.
func VerifH_C05_ws_refused() {
	opts := config.DefaultServerOptions()
	allow3 := verif.Bool()
	opts.SetAllowEIO3(allow3)
	ps := NewServer(opts).(*server)
	rec := &evRec{}
	rec.listen(ps, "connection", "connection_error")
	eio := [3]string{"4", "3", "x"}[verif.Choose(3)]
	got := dialWS(ps, "EIO="+eio+"&transport=websocket", nil)
	if eio == "4" || allow3 {
		verif.Assert(rec.count("connection") == 1 && rec.count("connection_error") == 0, "an allowed revision is admitted")
		verif.Assert(len(got) >= 1 && got[0].Mt == ws.TextMessage && len(got[0].Data) > 0 && got[0].Data[0] == '0', "and receives its open packet")
		return
	}
	verif.Assert(rec.count("connection") == 0 && ps.Clients().Len() == 0 && ps.ClientsCount() == 0, "a refused handshake creates no session")
	verif.Assert(rec.count("connection_error") == 1, "exactly one connection_error")
	verif.Assert(len(got) == 1 && got[0].Mt == ws.CloseMessage, "the accepted connection is closed with a close message, nothing else")
	if len(got) == 1 && len(got[0].Data) >= 2 {
		verif.Assert(string(got[0].Data[2:]) == "Unsupported protocol version", "carrying the documented text")
	}
}

// VerifH_C08_probe_races_listener: the upgrade probe is already on the wire when the
// WebSocket is accepted, and the goroutine that accepted it is descheduled right before it
// attaches the upgrade listeners (at the first debug-log call of MaybeUpgrade): the
// candidate's reader goroutine must not consume the probe before anybody listens.
func VerifH_C08_probe_races_listener() {
	ps := NewServer(config.DefaultServerOptions()).(*server)
	hctx, _ := newCtx("GET", "/engine.io/")
	hctx.Query().Set("transport", transports.POLLING)
	hctx.Query().Set("EIO", "4")
	_, tr := ps.Handshake(transports.POLLING, hctx)
	verif.Assume(tr != nil)
	sock, _ := ps.Clients().Load(tr.Sid())
	verif.Event("the accepting goroutine is descheduled", func() {
		if verif.Symbolic() {
			verif.Settle()
		} else {
			time.Sleep(120 * time.Millisecond)
		}
	})
	verif.InjectBudget(1)
	got := dialWS(ps, "EIO=4&transport=websocket&sid="+tr.Sid(), []zzmodels.WsMsg{{ws.TextMessage, []byte("2probe")}})
	verif.InjectBudget(0)
	probes := 0
	for _, m := range got {
		if string(m.Data) == "3probe" {
			probes++
		}
	}
	verif.Assert(probes == 1, "a candidate that follows the protocol gets its probe answered")
	verif.Assert(sock.ReadyState() == "open", "the session stays open")
}
