package engine

import (
	"net/http"
	"net/url"
	"strings"

	"github.com/zishang520/engine.io/v2/config"
	"github.com/zishang520/engine.io/v2/types"
	verif "github.com/zishang520/engine.io/v2/internal/zzverif"
)

// refClean: independent reference of URL path cleaning (net/http semantics): leading slash,
// "." and empty segments dropped, ".." pops, trailing slash kept.
func refClean(p string) string {
	if p == "" {
		return "/"
	}
	if p[0] != '/' {
		p = "/" + p
	}
	trailing := p[len(p)-1] == '/'
	var segs []string
	start := 1
	for i := 1; i <= len(p); i++ {
		if i == len(p) || p[i] == '/' {
			seg := p[start:i]
			start = i + 1
			switch seg {
			case "", ".":
			case "..":
				if len(segs) > 0 {
					segs = segs[:len(segs)-1]
				}
			default:
				segs = append(segs, seg)
			}
		}
	}
	out := "/" + strings.Join(segs, "/")
	// a path ending in "/." or "/.." is a directory reference for path.Clean only when it ends in "/"
	if trailing && out != "/" {
		out += "/"
	}
	return out
}

// refMount: the mount pattern according to the property statement.
func refMount(pathSet bool, path string, slash int) string { // slash: 0 unset, 1 true, 2 false
	p := "/engine.io"
	if pathSet {
		p = strings.TrimRight(path, "/")
	}
	if slash != 2 {
		p += "/"
	}
	return p
}

func refRouted(pattern, cleaned string) bool {
	if cleaned == pattern {
		return true
	}
	return strings.HasSuffix(pattern, "/") && strings.HasPrefix(cleaned, pattern)
}

type defaultHandler struct{ hits int }

func (d *defaultHandler) ServeHTTP(http.ResponseWriter, *http.Request) { d.hits++ }

func c05Route(optShape int, pathSet bool, path string, slash int, reqPath string) {
	ps := newProtoServer(config.DefaultServerOptions())
	dh := &defaultHandler{}
	hs := types.NewWebServer(dh)
	var opts any
	switch optShape {
	case 0: // no attach options at all
		opts = nil
	case 1: // server-only options object
		opts = config.DefaultServerOptions()
	case 2:
		ao := config.DefaultAttachOptions()
		if pathSet {
			ao.SetPath(path)
		}
		if slash == 1 {
			ao.SetAddTrailingSlash(true)
		} else if slash == 2 {
			ao.SetAddTrailingSlash(false)
		}
		opts = ao
	}
	ps.Attach(hs, opts)
	method := [4]string{"GET", "POST", "CONNECT", "OPTIONS"}[verif.Choose(4)] // routing does not depend on the method
	r := &http.Request{Method: method, URL: &url.URL{Path: reqPath}, Header: http.Header{}, Host: "example.test"}
	h, pattern := hs.Handler(r)
	want := refRouted(refMount(pathSet && optShape == 2, path, func() int {
		if optShape == 2 {
			return slash
		}
		return 0
	}()), refClean(reqPath))
	got := pattern != ""
	verif.Assert(got == want, "request reaches the engine exactly when its cleaned path is the engine path")
	if !want {
		verif.Assert(h == http.Handler(dh), "other requests go to the application's own handler")
	}
	verif.Observe("routed", got)
}

// default mount point, with no / server-only / empty attach options, for request paths
// "/engine.io" + up to 3 arbitrary bytes and a few fixed shapes.
func VerifH_C05_routing_default() {
	shape := verif.Choose(3)
	var req string
	switch verif.Choose(4) {
	case 0:
		req = "/engine.io" + verif.String(2+verif.Tier())
	case 1:
		req = "/engine.io/" + verif.String(1+verif.Tier())
	case 2:
		req = "//engine.io/./"
	case 3:
		req = "/x/../engine.io/"
	}
	c05Route(shape, false, "", 0, req)
}

// custom short mount path "/ab" or "/ab/" with addTrailingSlash unset/true/false and
// a request path of up to 5 arbitrary bytes.
func VerifH_C05_routing_custom() {
	path := [3]string{"/ab", "/ab/", "/ab//"}[verif.Choose(3)]
	slash := verif.Choose(3)
	n := verif.Choose(5+verif.Tier()) + 1
	req := "/" + verif.StringN(n-1)
	c05Route(2, true, path, slash, req)
}
