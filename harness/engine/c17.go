package engine

import (
	"net/http"
	"strings"
	"time"

	"github.com/zishang520/engine.io/v2/config"
	"github.com/zishang520/engine.io/v2/transports"
	"github.com/zishang520/engine.io/v2/types"
	"github.com/zishang520/engine.io/v2/utils"
	verif "github.com/zishang520/engine.io/v2/internal/zzverif"
)

// VerifH_C17_cookie: handshake cookie, initial_headers and headers events over a history
// of up to three responses of one session (handshake, then polls / posts carrying the sid).
func VerifH_C17_cookie() {
	opts := config.DefaultServerOptions()
	withCookie := verif.Bool()
	named := verif.Bool()
	if withCookie {
		ck := &http.Cookie{MaxAge: 60}
		if named {
			ck.Name = "sess"
			ck.Path = "/p"
		}
		opts.SetCookie(ck)
	}
	ps := newProtoServer(opts)
	rec := &evRec{}
	rec.listen(ps, "initial_headers", "headers")
	hctx, _ := newCtx("GET", "/engine.io/")
	hctx.Query().Set("transport", transports.POLLING)
	hctx.Query().Set("EIO", "4")
	_, tr := ps.Handshake(transports.POLLING, hctx)
	verif.Assume(tr != nil)
	ft := ps.made[0]
	id := ft.Sid()
	n := verif.Choose(3) + 1
	for k := 0; k < n; k++ {
		req := hctx
		if k > 0 {
			method := [2]string{"GET", "POST"}[verif.Choose(2)]
			req, _ = newCtx(method, "/engine.io/")
			req.Query().Set("transport", transports.POLLING)
			req.Query().Set("EIO", "4")
			req.Query().Set("sid", id)
		}
		headers := utils.NewParameterBag(map[string][]string{"Content-Type": {"text/plain; charset=UTF-8"}})
		ih, hh := rec.count("initial_headers"), rec.count("headers")
		ft.Emit("headers", headers, req) // what the polling transport does for every response
		sc := headers.Peek("Set-Cookie")
		if k == 0 {
			verif.Assert(rec.count("initial_headers") == ih+1, "initial_headers fires on the handshake response")
			if withCookie {
				verif.Assert(sc != "", "the handshake response carries the cookie")
				name := "io"
				path := "/"
				if named {
					name, path = "sess", "/p"
				}
				verif.Assert(strings.HasPrefix(sc, name+"="+id), "cookie value is the session id")
				verif.Assert(strings.Contains(sc, "; Path="+path) && strings.Contains(sc, "; Max-Age=60"), "configured attributes")
			} else {
				verif.Assert(sc == "", "no cookie configured, none sent")
			}
		} else {
			verif.Assert(sc == "", "only the handshake response carries Set-Cookie")
			verif.Assert(rec.count("initial_headers") == ih, "initial_headers fires once per session")
		}
		verif.Assert(rec.count("headers") == hh+1, "headers fires once for every response")
	}
	_ = types.NULL
}

// VerifH_C17_cookie_on_real_handshake: a real polling handshake end to end (real
// HandleRequest, polling transport and HttpContext): the handshake response itself carries
// the cookie and the initial_headers / headers events fire for it -- also when the
// goroutine that writes the response runs before the handshaking goroutine continues
// (symbolically: the scheduler may start a new goroutine at once; natively a slow 'drain'
// listener holds the handshaking goroutine back).
func VerifH_C17_cookie_on_real_handshake() {
	opts := config.DefaultServerOptions()
	opts.SetCookie(&http.Cookie{Name: "sess", Path: "/p"})
	c := newPollClient(opts)
	rec := &evRec{}
	rec.listen(c.ps, "initial_headers", "headers")
	if !verif.Symbolic() {
		c.ps.On("drain", func(...any) { time.Sleep(60 * time.Millisecond) })
	}
	verif.SpawnBudget(1)
	hs := c.request("GET", "")
	verif.SpawnBudget(0)
	if !verif.Symbolic() {
		time.Sleep(150 * time.Millisecond)
	}
	verif.Assert(hs.answered() && c.sock != nil, "handshake answered")
	if !hs.answered() || c.sock == nil {
		return
	}
	sc := hs.w.hdr.Get("Set-Cookie")
	verif.Assert(strings.HasPrefix(sc, "sess="+c.sid), "the handshake response carries the session cookie")
	verif.Assert(rec.count("initial_headers") == 1 && rec.count("headers") == 1, "initial_headers and headers fire once for the handshake response")
}

// VerifH_C17_overlapping_handshakes: two clients' handshakes overlap -- the second one runs
// completely at some yield point inside the first one (another request goroutine): each
// handshake response still carries exactly its OWN session's id in Set-Cookie, with the
// configured attributes.
func VerifH_C17_overlapping_handshakes() {
	opts := config.DefaultServerOptions()
	ck := &http.Cookie{Name: "sess", Path: "/p", MaxAge: 60}
	opts.SetCookie(ck)
	ps := newProtoServer(opts)
	ctxA, _ := newCtx("GET", "/engine.io/")
	ctxA.Query().Set("transport", transports.POLLING)
	ctxA.Query().Set("EIO", "4")
	ctxB, _ := newCtx("GET", "/engine.io/")
	ctxB.Query().Set("transport", transports.POLLING)
	ctxB.Query().Set("EIO", "4")
	overlapped := false
	armed := false
	ps.onMade = func(f *fakeTransport) {
		if armed {
			return
		}
		armed = true
		verif.Event("another client's handshake runs meanwhile", func() {
			overlapped = true
			ps.Handshake(transports.POLLING, ctxB)
		})
		verif.InjectBudget(1)
	}
	_, tr := ps.Handshake(transports.POLLING, ctxA)
	verif.InjectBudget(0)
	verif.Assume(tr != nil)
	if !overlapped {
		ps.Handshake(transports.POLLING, ctxB)
	}
	verif.Assert(len(ps.made) == 2, "two sessions")
	if len(ps.made) != 2 {
		return
	}
	for i, f := range ps.made {
		req := ctxA
		if i == 1 {
			req = ctxB
		}
		headers := utils.NewParameterBag(map[string][]string{"Content-Type": {"text/plain; charset=UTF-8"}})
		f.Emit("headers", headers, req) // the transport answers the handshake request
		sc := headers.Peek("Set-Cookie")
		verif.Assert(strings.HasPrefix(sc, "sess="+f.Sid()+";") || sc == "sess="+f.Sid(), "each handshake response carries its own session's id in Set-Cookie")
		verif.Assert(strings.Contains(sc, "; Path=/p") && strings.Contains(sc, "; Max-Age=60"), "with the configured attributes")
	}
	verif.Assert(ps.made[0].Sid() != ps.made[1].Sid(), "different sessions")
}
