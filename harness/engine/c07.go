package engine

import (
	"time"

	"github.com/zishang520/engine.io-go-parser/packet"
	"github.com/zishang520/engine.io/v2/config"
	"github.com/zishang520/engine.io/v2/transports"
	"github.com/zishang520/engine.io/v2/types"
	verif "github.com/zishang520/engine.io/v2/internal/zzverif"
)

// asyncComplete: like the real websocket transport, the write cycle ends on another goroutine.
func asyncComplete(f *fakeTransport, _ []*packet.Packet) {
	go f.complete()
}

type hbWorld struct {
	ps    *protoServer
	ft    *fakeTransport
	sock  Socket
	rec   *evRec
	seen  int // packets of ft already accounted for
}

func newHbWorld(proto int, interval, timeout time.Duration) *hbWorld {
	opts := config.DefaultServerOptions()
	opts.SetPingInterval(interval)
	opts.SetPingTimeout(timeout)
	opts.SetAllowEIO3(true)
	ps := newProtoServer(opts)
	ctx, _ := newCtx("GET", "/engine.io/")
	ctx.Query().Set("transport", transports.WEBSOCKET)
	if proto == 4 {
		ctx.Query().Set("EIO", "4")
	} else {
		ctx.Query().Set("EIO", "3")
	}
	ps.onMade = func(f *fakeTransport) { f.onSend = asyncComplete }
	_, tr := ps.Handshake(transports.WEBSOCKET, ctx)
	verif.Assume(tr != nil)
	w := &hbWorld{ps: ps, ft: ps.made[0], rec: &evRec{}}
	w.sock, _ = ps.Clients().Load(w.ft.Sid())
	w.rec.listen(w.sock, "close", "heartbeat")
	verif.Settle()
	w.seen = len(w.ft.flat()) // the open packet
	return w
}

// newPackets returns the types of the packets handed to the transport since the last call.
func (w *hbWorld) newPackets() []packet.Type {
	verif.Settle()
	all := w.ft.flat()
	var out []packet.Type
	for _, p := range all[w.seen:] {
		out = append(out, p.Type)
	}
	w.seen = len(all)
	return out
}

func (w *hbWorld) closedWith(reason string) bool {
	if w.rec.count("close") != 1 {
		return false
	}
	i := w.rec.first("close")
	r, _ := w.rec.args[i][0].(string)
	return r == reason
}

func (w *hbWorld) deliver(t packet.Type) {
	w.ft.OnPacket(&packet.Packet{Type: t})
}

func c07v4(steps int) {
	I, T := verif.Int64(), verif.Int64()
	verif.Assume(I >= 1 && I <= 1<<40 && T >= 1 && T <= 1<<40)
	w := newHbWorld(4, time.Duration(I), time.Duration(T))
	nextPing := I     // absolute instant of the next ping (when not awaiting a pong)
	deadline := int64(-1) // absolute pong deadline when awaiting
	closed := false
	for step := 0; step < steps && !closed; step++ {
		next := nextPing
		if deadline >= 0 {
			next = deadline
		}
		if verif.Bool() {
			// nothing happens until the next specified instant
			verif.SleepUntil(next - 1)
			verif.Assert(len(w.newPackets()) == 0 && w.rec.count("close") == 0, "nothing happens before the specified instant")
			verif.SleepUntil(next)
			pk := w.newPackets()
			if deadline >= 0 {
				verif.Assert(w.closedWith("ping timeout"), "closed with 'ping timeout' exactly at the deadline")
				verif.Assert(len(pk) == 0, "no packet at the deadline")
				closed = true
			} else {
				verif.Assert(len(pk) == 1 && pk[0] == packet.PING, "ping exactly one interval after open / the accepted pong")
				verif.Assert(w.rec.count("close") == 0, "still open")
				deadline = next + T
			}
			continue
		}
		// a client packet strictly before the next specified instant
		t := verif.Int64()
		verif.Assume(t >= verif.Now() && t < next)
		verif.SleepUntil(t)
		verif.Assert(len(w.newPackets()) == 0 && w.rec.count("close") == 0, "no heartbeat activity before its time")
		switch verif.Choose(3) {
		case 0: // pong (in time, unsolicited or duplicated): accepted
			w.deliver(packet.PONG)
			verif.Assert(len(w.newPackets()) == 0 && w.rec.count("close") == 0, "an accepted pong closes nothing and sends nothing")
			deadline = -1
			nextPing = t + I
		case 1: // wrong direction for revision 4
			w.deliver(packet.PING)
			verif.Assert(w.closedWith("transport error"), "client ping on a revision-4 session closes it with a transport error")
			verif.Assert(len(w.newPackets()) == 0, "and has no other effect")
			closed = true
		case 2:
			w.deliver(packet.MESSAGE)
			verif.Assert(len(w.newPackets()) == 0 && w.rec.count("close") == 0, "other traffic does not touch the heartbeat")
		}
	}
	if closed {
		// nothing fires after the close
		verif.SleepUntil(verif.Now() + I + T + 1)
		verif.Assert(len(w.newPackets()) == 0 && w.rec.count("close") == 1, "no heartbeat activity after the close")
	}
}

func c07v3(steps int) {
	I, T := verif.Int64(), verif.Int64()
	verif.Assume(I >= 1 && I <= 1<<40 && T >= 1 && T <= 1<<40)
	w := newHbWorld(3, time.Duration(I), time.Duration(T))
	deadline := I + T
	closed := false
	for step := 0; step < steps && !closed; step++ {
		if verif.Bool() {
			verif.SleepUntil(deadline - 1)
			verif.Assert(len(w.newPackets()) == 0 && w.rec.count("close") == 0, "nothing happens before the deadline")
			verif.SleepUntil(deadline)
			verif.Assert(w.closedWith("ping timeout"), "closed exactly interval+timeout after the last ping (or opening)")
			closed = true
			continue
		}
		t := verif.Int64()
		verif.Assume(t >= verif.Now() && t < deadline)
		verif.SleepUntil(t)
		verif.Assert(len(w.newPackets()) == 0 && w.rec.count("close") == 0, "no heartbeat activity before its time")
		switch verif.Choose(3) {
		case 0:
			w.deliver(packet.PING)
			pk := w.newPackets()
			verif.Assert(len(pk) == 1 && pk[0] == packet.PONG, "every client ping is answered with a pong")
			verif.Assert(w.rec.count("close") == 0, "still open")
			deadline = t + I + T
		case 1:
			w.deliver(packet.PONG)
			verif.Assert(w.closedWith("transport error"), "client pong on a revision-3 session closes it with a transport error")
			verif.Assert(len(w.newPackets()) == 0, "and has no other effect")
			closed = true
		case 2:
			w.deliver(packet.MESSAGE)
			verif.Assert(len(w.newPackets()) == 0 && w.rec.count("close") == 0, "other traffic does not touch the heartbeat")
		}
	}
	if closed {
		verif.SleepUntil(verif.Now() + I + T + 1)
		verif.Assert(len(w.newPackets()) == 0 && w.rec.count("close") == 1, "no heartbeat activity after the close")
	}
}

func VerifH_C07_v4()  { verif.RunTimed(func() { c07v4(3) }) }
func VerifH_C07_v3()  { verif.RunTimed(func() { c07v3(3) }) }
func VerifHT_C07_v4_long() { verif.RunTimed(func() { c07v4(5) }) }
func VerifHT_C07_v3_long() { verif.RunTimed(func() { c07v3(5) }) }

// VerifH_C07_v4_silent_polling: a polling client that read its handshake and then
// vanished (no poll pending, so nothing can be written any more): the ping goes unanswered
// and the session closes with 'ping timeout' exactly one interval plus one timeout after
// it opened -- whether or not the ping could be written.
func VerifH_C07_v4_silent_polling() {
	verif.RunTimed(func() {
		I, T := verif.Int64(), verif.Int64()
		verif.Assume(I >= 1 && I <= 1<<40 && T >= 1 && T <= 1<<40)
		opts := config.DefaultServerOptions()
		opts.SetPingInterval(time.Duration(I))
		opts.SetPingTimeout(time.Duration(T))
		ps := newProtoServer(opts)
		ctx, _ := newCtx("GET", "/engine.io/")
		ctx.Query().Set("transport", transports.POLLING)
		ctx.Query().Set("EIO", "4")
		_, tr := ps.Handshake(transports.POLLING, ctx)
		verif.Assume(tr != nil)
		ft := ps.made[0]
		sock, _ := ps.Clients().Load(ft.Sid())
		rec := &evRec{}
		rec.listen(sock, "close")
		pendingPoll := verif.Bool()
		if pendingPoll {
			ft.complete() // the client polls once more and then goes silent
		}
		verif.SleepUntil(I + T - 1)
		verif.Assert(rec.count("close") == 0 && sock.ReadyState() == "open", "not closed before the deadline")
		verif.SleepUntil(I + T)
		verif.Settle()
		verif.Assert(rec.count("close") == 1, "closed exactly at ping + timeout")
		if rec.count("close") == 1 {
			r, _ := rec.args[rec.first("close")][0].(string)
			verif.Assert(r == "ping timeout", "with reason 'ping timeout'")
		}
		verif.Assert(ps.Clients().Len() == 0, "and removed from the table")
	})
}

// VerifH_C07_silent_while_closing: a graceful Close with data still buffered puts the
// session into 'closing'; a peer that stays silent from then on is still closed exactly at
// the heartbeat deadline (one interval plus one timeout after the open on both revisions
// in this script), not earlier and not never.
func VerifH_C07_silent_while_closing() {
	verif.RunTimed(func() {
		I, T := verif.Int64(), verif.Int64()
		verif.Assume(I >= 1 && I <= 1<<30 && T >= 1 && T <= 1<<30)
		proto := [2]int{4, 3}[verif.Choose(2)]
		w := newHbWorld(proto, time.Duration(I), time.Duration(T))
		w.ft.onSend = nil // the peer stops reading: no write cycle completes any more
		w.sock.Send(types.NewStringBufferString("a"), nil, nil)
		w.sock.Send(types.NewStringBufferString("b"), nil, nil)
		w.sock.Close(false)
		verif.Assert(w.sock.ReadyState() == "closing", "closing while data is buffered")
		verif.SleepUntil(I + T - 1)
		verif.Settle()
		verif.Assert(w.rec.count("close") == 0, "not closed before the heartbeat deadline")
		verif.SleepUntil(I + T)
		verif.Settle()
		verif.Assert(w.closedWith("ping timeout"), "a silent peer of a closing session is closed with 'ping timeout' exactly at the deadline")
		verif.SleepUntil(I + T + I + T + 1)
		verif.Settle()
		verif.Assert(w.rec.count("close") == 1, "exactly once")
	})
}

// C19 (integration): the same heartbeat scripts with the repository's own utils/timer.go
// executed on the runtime-timer model instead of the contract-level timer model: the
// session's ping interval / ping timeout timers (SetTimeout, Refresh, ClearTimeout from
// engine/socket.go) behave as the heartbeat reference expects for every symbolic interval,
// timeout and packet instant.
func VerifH_C19_heartbeat_v4_on_real_timers() {
	verif.RunTimed(func() { verif.RealTimers(); c07v4(3) })
}
func VerifH_C19_heartbeat_v3_on_real_timers() {
	verif.RunTimed(func() { verif.RealTimers(); c07v3(3) })
}

// c07v3AfterUpgrade: a revision-3 session completes a transport upgrade (which clears the
// pong deadline of the old transport), the client then pings on the new transport at a
// symbolic instant and falls silent: the ping is answered, and the session is closed with
// 'ping timeout' exactly one interval plus one timeout after that ping, not earlier.
func c07v3AfterUpgrade(realTimers bool) {
	if realTimers {
		verif.RealTimers()
	}
	I, T := verif.Int64(), verif.Int64()
	verif.Assume(I >= 1 && I <= 1<<40 && T >= 1 && T <= 1<<40)
	sockWorldOpts = func(o *config.ServerOptions) {
		o.SetPingInterval(time.Duration(I))
		o.SetPingTimeout(time.Duration(T))
		o.SetUpgradeTimeout(time.Duration(I + T))
	}
	sw := newSockWorld(transports.POLLING, "3")
	sockWorldOpts = nil
	rec := &evRec{}
	rec.listen(sw.sock, "close", "upgrade", "heartbeat")
	ctx, _ := newCtx("GET", "/engine.io/")
	ctx.Query().Set("transport", transports.WEBSOCKET)
	ctx.Query().Set("EIO", "3")
	ctx.Query().Set("sid", sw.sock.Id())
	cand := newFakeTransport(transports.WEBSOCKET, ctx)
	cand.onSend = asyncComplete
	sw.sock.MaybeUpgrade(cand)
	cand.OnPacket(probePing())
	verif.Settle()
	cand.OnPacket(&packet.Packet{Type: packet.UPGRADE, Data: types.NewStringBufferString("")})
	verif.Settle()
	verif.Assert(rec.count("upgrade") == 1 && sw.sock.Transport() == transports.Transport(cand), "upgraded")
	t := verif.Int64()
	verif.Assume(t >= verif.Now() && t < I+T)
	verif.SleepUntil(t)
	verif.Assert(rec.count("close") == 0, "open until the client's ping")
	n := len(cand.flat())
	cand.OnPacket(&packet.Packet{Type: packet.PING})
	verif.Settle()
	pk := cand.flat()
	verif.Assert(len(pk) == n+1 && pk[n].Type == packet.PONG && rec.count("heartbeat") == 1, "the ping on the new transport is answered with a pong")
	deadline := t + I + T
	verif.SleepUntil(deadline - 1)
	verif.Settle()
	verif.Assert(rec.count("close") == 0, "not closed before the deadline")
	verif.SleepUntil(deadline)
	verif.Settle()
	verif.Assert(rec.count("close") == 1, "a silent revision-3 peer is closed exactly interval+timeout after its last ping, also after an upgrade")
	if rec.count("close") == 1 {
		r, _ := rec.args[rec.first("close")][0].(string)
		verif.Assert(r == "ping timeout", "with reason 'ping timeout'")
	}
}

func VerifH_C07_v3_after_upgrade() { verif.RunTimed(func() { c07v3AfterUpgrade(false) }) }

// the same on the repository's own utils/timer.go (runtime-timer model) instead of the
// contract-level timer model: the heartbeat depends on Refresh re-arming a cleared timer
func VerifH_C07_v3_after_upgrade_real_timers() { verif.RunTimed(func() { c07v3AfterUpgrade(true) }) }

// VerifH_C07_v4_after_mixed_upgrade: a revision-4 session upgrades to a transport whose own
// request carried EIO=3 or no EIO at all (a client may do that); the heartbeat keeps following
// the SESSION's revision: server ping one interval after the open, and a silent peer is closed
// exactly one timeout after that ping (not interval+timeout).
func VerifH_C07_v4_after_mixed_upgrade() {
	verif.RunTimed(func() {
		I, T := verif.Int64(), verif.Int64()
		verif.Assume(I >= 2 && I <= 1<<40 && T >= 1 && T <= 1<<40)
		sockWorldOpts = func(o *config.ServerOptions) {
			o.SetPingInterval(time.Duration(I))
			o.SetPingTimeout(time.Duration(T))
			o.SetUpgradeTimeout(time.Duration(I))
		}
		sw := newSockWorld(transports.POLLING, "4")
		sockWorldOpts = nil
		rec := &evRec{}
		rec.listen(sw.sock, "close", "upgrade")
		ctx, _ := newCtx("GET", "/engine.io/")
		ctx.Query().Set("transport", transports.WEBSOCKET)
		if verif.Bool() {
			ctx.Query().Set("EIO", "3")
		}
		ctx.Query().Set("sid", sw.sock.Id())
		cand := newFakeTransport(transports.WEBSOCKET, ctx)
		cand.onSend = asyncComplete
		sw.sock.MaybeUpgrade(cand)
		cand.OnPacket(probePing())
		verif.Settle()
		cand.OnPacket(&packet.Packet{Type: packet.UPGRADE, Data: types.NewStringBufferString("")})
		verif.Settle()
		verif.Assert(rec.count("upgrade") == 1, "upgraded")
		n := len(cand.flat())
		verif.SleepUntil(I)
		verif.Settle()
		pk := cand.flat()
		verif.Assert(len(pk) == n+1 && pk[n].Type == packet.PING, "the server pings one interval after the open, on the new transport")
		verif.SleepUntil(I + T - 1)
		verif.Settle()
		verif.Assert(rec.count("close") == 0, "not closed before ping + timeout")
		verif.SleepUntil(I + T)
		verif.Settle()
		verif.Assert(rec.count("close") == 1, "a silent peer is closed exactly one ping timeout after the ping, whatever EIO value the upgraded transport's request carried")
	})
}
