package engine

import (
	"bufio"
	"net"
	"net/http"
	"strings"
	"time"

	ws "github.com/gorilla/websocket"
	"github.com/zishang520/engine.io-go-parser/packet"
	"github.com/zishang520/engine.io/v2/config"
	"github.com/zishang520/engine.io/v2/transports"
	"github.com/zishang520/engine.io/v2/types"
	"github.com/zishang520/engine.io/v2/internal/zzmodels"
	verif "github.com/zishang520/engine.io/v2/internal/zzverif"
)

type upWorld struct {
	*sockWorld
	cand   *fakeTransport
	events *evRec
	msgs   []any
}

func newUpWorld() *upWorld {
	sockWorldOpts = func(o *config.ServerOptions) { o.SetUpgradeTimeout(450 * time.Millisecond) }
	w := &upWorld{sockWorld: newSockWorld(transports.POLLING, "4"), events: &evRec{}}
	sockWorldOpts = nil
	w.events.listen(w.sock, "upgrading", "upgrade", "close")
	w.sock.On("message", func(a ...any) { w.msgs = append(w.msgs, a[0]) })
	return w
}

func (w *upWorld) candidate() *fakeTransport {
	ctx, _ := newCtx("GET", "/engine.io/")
	ctx.Query().Set("transport", transports.WEBSOCKET)
	ctx.Query().Set("EIO", "4")
	ctx.Query().Set("sid", w.sock.Id())
	return newFakeTransport(transports.WEBSOCKET, ctx)
}

func probePing() *packet.Packet {
	return &packet.Packet{Type: packet.PING, Data: strings.NewReader("probe")}
}

func isProbePong(p *packet.Packet) bool {
	if p.Type != packet.PONG || p.Data == nil {
		return false
	}
	b := make([]byte, 8)
	n, _ := p.Data.Read(b)
	return string(b[:n]) == "probe"
}

// c08Script: one candidate, a script of up to `steps` candidate-side events; after any
// terminal failure a second candidate must still be able to complete the upgrade.
func c08Script(steps int) {
	w := newUpWorld()
	main0 := w.ft
	cand := w.candidate()
	lateClose := verif.Bool() // the candidate's connection reports its close asynchronously
	cand.holdClose = lateClose
	// an application message buffered while the poll cycle is busy
	m1 := w.send(1, false) // goes out on polling at once (poll pending)
	m2 := w.send(2, false) // buffered: polling is busy until the next poll
	t0 := verif.Now()
	w.sock.MaybeUpgrade(cand)
	verif.Assert(w.sock.Upgrading() && !w.sock.Upgraded() && w.sock.Transport() == transports.Transport(main0), "a candidate is entertained; the transport does not change yet")
	probed, done, failed := false, false, false
	for step := 0; step < steps && !done && !failed; step++ {
		switch verif.Choose(10) {
		case 9: // time passes (a third of the upgrade timeout)
			if verif.Now()-t0 < int64(w.ps.Opts().UpgradeTimeout())/2 {
				verif.SleepUntil(verif.Now() + int64(w.ps.Opts().UpgradeTimeout())/3)
			}
		case 0: // probe ping
			before := len(cand.flat())
			cand.OnPacket(probePing())
			got := cand.flat()
			verif.Assert(len(got) == before+1 && isProbePong(got[before]), "the probe ping is answered with a probe pong on the candidate")
			verif.Assert(w.sock.Transport() == transports.Transport(main0) && w.sock.Upgrading(), "no switch on the probe")
			probed = true
			cand.complete()
		case 1: // the polling cycle ends and the next poll arrives: check tick releases it with a noop
			main0.complete()
			main0.complete() // both application batches have been read; the next poll is pending
			n := len(main0.flat())
			verif.SleepUntil(verif.Now() + 100e6)
			pk := main0.flat()
			if probed {
				verif.Assert(len(pk) > n, "with a probe seen, a writable polling transport is released")
			}
		case 2: // upgrade packet
			cand.OnPacket(&packet.Packet{Type: packet.UPGRADE, Data: types.NewStringBufferString("")})
			verif.Assert(w.sock.Transport() == transports.Transport(cand), "the upgrade packet switches the transport")
			verif.Assert(w.sock.Upgraded() && !w.sock.Upgrading(), "upgraded, no longer upgrading")
			verif.Assert(w.events.count("upgrade") == 1, "one upgrade event")
			verif.Assert(main0.Discarded() && main0.ReadyState() != "open", "the old transport is discarded and closed")
			done = true
		case 3:
			cand.OnPacket(&packet.Packet{Type: packet.MESSAGE, Data: types.NewStringBufferString("early")})
			failed = true
		case 4:
			cand.OnPacket(&packet.Packet{Type: packet.PING, Data: strings.NewReader("other")})
			failed = true
		case 5:
			cand.OnPacket(&packet.Packet{Type: packet.NOOP, Data: types.NewStringBufferString("")})
			failed = true
		case 6:
			cand.OnClose()
			failed = true
		case 7:
			cand.OnError("reset", nil)
			failed = true
		case 8: // the upgrade timeout, counted from the start of the attempt, expires
			verif.SleepUntil(t0 + int64(w.ps.Opts().UpgradeTimeout()))
			failed = true
		}
		verif.Assert(len(w.msgs) == 0, "nothing arriving on a candidate is delivered as a message before the upgrade completes")
		verif.Assert(w.events.count("close") == 0 && w.sock.ReadyState() == "open", "the session stays open")
	}
	if failed {
		verif.Assert(!w.sock.Upgrading() && !w.sock.Upgraded(), "a failed candidate leaves the session not upgrading")
		verif.Assert(w.sock.Transport() == transports.Transport(main0), "still on its original transport")
		verif.Assert(cand.ReadyState() != "open", "only the candidate is closed")
		verif.Assert(cand.ListenerCount("packet") == 0, "the candidate's listeners are removed")
		main0.complete()
		main0.complete() // every application batch has been read and the next poll is pending
		quiet := len(main0.flat())
		verif.SleepUntil(verif.Now() + 350e6)
		verif.Assert(len(main0.flat()) == quiet, "the check interval of the failed attempt is cleared")
		verif.Assert(main0.ReadyState() == "open" && !main0.Discarded(), "the original transport is untouched")
		// further upgrade attempts are possible and do complete
		failedCand := cand
		cand = w.candidate()
		w.sock.MaybeUpgrade(cand)
		cand.OnPacket(probePing())
		cand.complete()
		if lateClose {
			// the failed candidate's connection reports its close only now
			failedCand.OnClose()
			verif.Assert(w.sock.Upgrading() && !w.sock.Upgraded(), "a late close of an abandoned candidate does not touch the candidate now being entertained")
		}
		cand.OnPacket(&packet.Packet{Type: packet.UPGRADE, Data: types.NewStringBufferString("")})
		verif.Assert(w.sock.Transport() == transports.Transport(cand) && w.sock.Upgraded(), "a later candidate that follows the protocol completes the switch")
		done = true
	}
	if !done {
		return
	}
	// across the switch: nothing lost, duplicated or reordered outbound ...
	handed := 0
	for _, p := range append(main0.flat(), cand.flat()...) {
		if p.Type == packet.MESSAGE {
			handed++
		}
	}
	verif.Assert(handed == 2, "packets buffered during the upgrade are handed to the new transport by the switch itself, not by a later send")
	cand.complete()
	m3 := w.send(3, false)
	cand.complete()
	var all []*packet.Packet
	for _, p := range main0.flat() {
		if p.Type == packet.MESSAGE {
			all = append(all, p)
		}
	}
	for _, p := range cand.flat() {
		if p.Type == packet.MESSAGE {
			all = append(all, p)
		}
	}
	verif.Assert(len(all) == 3, "every application message is handed to a transport exactly once across the switch")
	if len(all) == 3 {
		verif.Assert(all[0].Data == m1 && all[1].Data == m2 && all[2].Data == m3, "in send order")
	}
	// ... and inbound: the old transport is deaf, the new one delivers
	main0.OnPacket(&packet.Packet{Type: packet.MESSAGE, Data: types.NewStringBufferString("stale")})
	verif.Assert(len(w.msgs) == 0, "packets on the discarded transport are not delivered")
	in := types.NewStringBufferString("fresh")
	cand.OnPacket(&packet.Packet{Type: packet.MESSAGE, Data: in})
	verif.Assert(len(w.msgs) == 1 && w.msgs[0] == any(in), "the new transport delivers")
	// at most one switch
	cand.OnPacket(&packet.Packet{Type: packet.UPGRADE, Data: types.NewStringBufferString("")})
	verif.Assert(w.sock.Transport() == transports.Transport(cand) && w.events.count("upgrade") == 1 && w.sock.ReadyState() == "open", "the switch happens at most once")
	quiet := len(cand.flat()) + len(main0.flat())
	verif.SleepUntil(verif.Now() + 350e6)
	verif.Assert(len(cand.flat())+len(main0.flat()) == quiet && w.sock.ReadyState() == "open", "no upgrade timer is left behind")
}

func VerifH_C08_script()       { verif.RunTimed(func() { c08Script(3) }) }
func VerifHT_C08_script_long() { verif.RunTimed(func() { c08Script(4) }) }

// VerifH_C08_session_closes_during_upgrade: a close cause for the session at every yield
// point of the upgrade exchange: the candidate is closed, no upgrade happens afterwards,
// and nothing is emitted after the close event.
func VerifH_C08_session_closes_during_upgrade() {
	verif.RunTimed(func() {
		w := newUpWorld()
		cand := w.candidate()
		cause := verif.Choose(3)
		verif.Event("session closes", func() {
			switch cause {
			case 0:
				w.ft.OnClose()
			case 1:
				w.sock.Close(true)
			case 2:
				w.ft.OnError("gone", nil)
			}
		})
		w.sock.MaybeUpgrade(cand)
		verif.InjectBudget(1)
		cand.OnPacket(probePing())
		cand.complete()
		cand.OnPacket(&packet.Packet{Type: packet.UPGRADE, Data: types.NewStringBufferString("")})
		verif.InjectBudget(0)
		if w.events.count("close") > 0 {
			i := w.events.first("close")
			verif.Assert(w.events.count("close") == 1, "one close event")
			for _, n := range w.events.names[i+1:] {
				verif.Assert(n != "upgrade" && n != "upgrading", "no upgrade event after the close event")
			}
			verif.Assert(w.sock.ReadyState() == "closed", "closed")
			if !w.sock.Upgraded() {
				verif.Assert(cand.ReadyState() != "open", "the candidate of a closed session is closed")
			}
			verif.Assert(cand.ListenerCount("packet") == 0 || w.sock.Transport() == transports.Transport(cand), "no dangling candidate listeners")
		} else {
			verif.Assert(w.sock.Upgraded() && w.sock.Transport() == transports.Transport(cand), "without a close the upgrade completes")
		}
	})
}

// callOnWebSocket runs the server's upgrade gate for a connection object that has no
// network connection behind it; natively closing such a connection panics inside the
// library, which is reported as closed=true.
func callOnWebSocket(ps *protoServer, ctx *types.HttpContext, wsc *types.WebSocketConn) (closed bool) {
	if !verif.Symbolic() {
		defer func() {
			if recover() != nil {
				closed = true
			}
		}()
	}
	before := zzmodels.WsCloseCalls
	ps.onWebSocket(ctx, wsc)
	return zzmodels.WsCloseCalls > before
}

// VerifH_C08_gate: a WebSocket candidate naming an unknown, an upgrading, an already
// upgraded or an idle session, with a transport that does or does not handle upgrades.
func VerifH_C08_gate() {
	verif.RunTimed(func() {
		w := newUpWorld()
		state := verif.Choose(4) // idle, upgrading (no probe yet), upgraded, unknown sid
		tnI := verif.Choose(2)
		if state == 0 && tnI == 0 {
			return // the admitted case builds the real WebSocket transport, which needs a network connection
		}
		var first *fakeTransport
		switch state {
		case 1:
			first = w.candidate()
			w.sock.MaybeUpgrade(first)
		case 2:
			first = w.candidate()
			w.sock.MaybeUpgrade(first)
			first.OnPacket(probePing())
			first.OnPacket(&packet.Packet{Type: packet.UPGRADE, Data: types.NewStringBufferString("")})
		}
		made := len(w.ps.made)
		cur := w.sock.Transport()
		ctx, _ := newCtx("GET", "/engine.io/")
		tn := [2]string{transports.WEBSOCKET, transports.POLLING}[tnI]
		ctx.Query().Set("transport", tn)
		ctx.Query().Set("EIO", "4")
		if state == 3 {
			ctx.Query().Set("sid", "nosuch")
		} else {
			ctx.Query().Set("sid", w.sock.Id())
		}
		wsc := &types.WebSocketConn{EventEmitter: types.NewEventEmitter()}
		closed := callOnWebSocket(w.ps, ctx, wsc)
		if state == 0 && tn == transports.WEBSOCKET {
			verif.Assert(!closed && len(w.ps.made) == made+1 && w.sock.Upgrading(), "an idle session entertains the candidate")
		} else {
			verif.Assert(closed, "a candidate for an unknown, upgrading or upgraded session, or on a transport that does not handle upgrades, is closed")
			verif.Assert(len(w.ps.made) == made, "and no transport is created for it")
			verif.Assert(w.sock.Transport() == cur && w.sock.ReadyState() == "open", "the session is untouched")
			if state == 1 {
				verif.Assert(w.sock.Upgrading() && first.ListenerCount("packet") == 1, "the candidate already being entertained is untouched")
			}
		}
	})
}

// newGateConn: a WebSocket connection object for a candidate that reaches the server's
// upgrade gate.  Symbolically the modelled gorilla connection (silent peer); natively a real
// gorilla server connection over an in-memory pipe whose client stays silent.
func newGateConn() *types.WebSocketConn {
	if verif.Symbolic() {
		return &types.WebSocketConn{EventEmitter: types.NewEventEmitter(), Conn: &ws.Conn{}}
	}
	cli, srv := net.Pipe()
	verif.Cleanup(func() { cli.Close(); srv.Close() })
	done := make(chan *ws.Conn, 1)
	go func() {
		req, err := http.ReadRequest(bufio.NewReader(srv))
		if err != nil {
			done <- nil
			return
		}
		up := ws.Upgrader{}
		c, _ := up.Upgrade(&hijackWriter{conn: srv}, req, nil)
		done <- c
	}()
	go ws.NewClient(cli, mustURL("ws://engine.test/engine.io/"), nil, 1024, 1024)
	c := <-done
	if c == nil {
		panic(verif.AssumeFailed{Msg: "native websocket handshake over the pipe failed"})
	}
	return &types.WebSocketConn{EventEmitter: types.NewEventEmitter(), Conn: c}
}

// VerifH_C08_second_candidate_during_upgrade: a second upgrade candidate for the same
// session reaches the server's real gate (server.onWebSocket) at any yield point of the
// first candidate's exchange (debug-log calls, and the old transport's 'close' event inside
// the switch): while a candidate is being entertained and after the switch it must be
// refused, so the session entertains one candidate and is upgraded at most once.
func VerifH_C08_second_candidate_during_upgrade() {
	verif.RunTimed(func() {
		w := newUpWorld()
		cand := w.candidate()
		w.ft.On("close", func(...any) { verif.Yield("old transport closes") })
		admitted := false
		verif.Event("a second candidate reaches the gate", func() {
			ctx, _ := newCtx("GET", "/engine.io/")
			ctx.Query().Set("transport", transports.WEBSOCKET)
			ctx.Query().Set("EIO", "4")
			ctx.Query().Set("sid", w.sock.Id())
			wsc := newGateConn()
			refused := false
			wsc.On("close", func(...any) { refused = true })
			w.ps.onWebSocket(ctx, wsc) // a refused candidate's connection is closed by the gate
			admitted = !refused
		})
		w.sock.MaybeUpgrade(cand)
		verif.InjectBudget(1)
		cand.OnPacket(probePing())
		cand.complete()
		cand.OnPacket(&packet.Packet{Type: packet.UPGRADE, Data: types.NewStringBufferString("")})
		verif.InjectBudget(0)
		verif.Settle()
		verif.Assert(!admitted, "no second candidate is admitted while one is entertained or after the switch")
		verif.Assert(w.events.count("upgrade") == 1 && w.sock.Transport() == transports.Transport(cand), "the session is upgraded exactly once, to the first candidate")
	})
}

// VerifH_C08_candidate_dead_on_arrival: the candidate's connection is already gone when the
// session starts entertaining it (its reader reported the close before anybody listened):
// nobody will ever tell the session, so the upgrade timeout is what ends the attempt -- after
// it the session is no longer upgrading, still on its transport, and a later candidate that
// follows the protocol completes the switch.
func VerifH_C08_candidate_dead_on_arrival() {
	verif.RunTimed(func() {
		w := newUpWorld()
		main0 := w.ft
		dead := w.candidate()
		if verif.Bool() {
			dead.OnClose() // closed before MaybeUpgrade attaches its listeners
		} else {
			dead.holdClose = true
			dead.Close() // closing, never completes
		}
		w.sock.MaybeUpgrade(dead)
		verif.Assert(w.sock.Upgrading(), "the attempt is being entertained")
		verif.SleepUntil(verif.Now() + int64(w.ps.Opts().UpgradeTimeout()))
		verif.Settle()
		verif.Assert(!w.sock.Upgrading() && !w.sock.Upgraded(), "after the upgrade timeout the session is no longer upgrading")
		verif.Assert(w.sock.Transport() == transports.Transport(main0) && w.sock.ReadyState() == "open", "and is untouched otherwise")
		cand := w.candidate()
		w.sock.MaybeUpgrade(cand)
		cand.OnPacket(probePing())
		cand.complete()
		cand.OnPacket(&packet.Packet{Type: packet.UPGRADE, Data: types.NewStringBufferString("")})
		verif.Assert(w.sock.Upgraded() && w.sock.Transport() == transports.Transport(cand), "a later candidate that follows the protocol completes the switch")
	})
}

// VerifH_C08_frame_during_setup: the candidate's reader runs from its constructor, so a
// frame of the candidate (the upgrade packet sent without waiting for the probe pong, an
// unexpected packet, or the connection closing) may be dispatched the moment the session
// has attached its 'packet' listener, while MaybeUpgrade is still setting the attempt up.
// Whatever that frame does, nothing of the attempt is left behind: one upgrade timeout later
// the adopted transport is still open, and a later attempt is still being entertained.
func VerifH_C08_frame_during_setup() {
	verif.RunTimed(func() {
		atAttach := false
		types.VerifYield = func(evt string) {
			if evt == "packet" {
				atAttach = true
				verif.Yield("packet listener attached")
				atAttach = false
			}
		}
		defer func() { types.VerifYield = nil }()
		w := newUpWorld()
		main0 := w.ft
		cand := w.candidate()
		kind := verif.Choose(3)
		dispatched := false
		frame := func() {
			dispatched = true
			switch kind {
			case 0:
				cand.OnPacket(&packet.Packet{Type: packet.UPGRADE, Data: types.NewStringBufferString("")})
			case 1:
				cand.OnPacket(&packet.Packet{Type: packet.MESSAGE, Data: types.NewStringBufferString("early")})
			case 2:
				cand.OnClose()
			}
		}
		verif.Event("a frame of the candidate is dispatched", func() {
			if atAttach { // (a frame dispatched before anybody listens is the known finding K-C08-probe-before-listeners)
				frame()
			}
		})
		t0 := verif.Now()
		ut := int64(w.ps.Opts().UpgradeTimeout())
		verif.InjectBudget(1)
		w.sock.MaybeUpgrade(cand)
		verif.InjectBudget(0)
		if !dispatched {
			frame()
		}
		if kind == 0 {
			verif.Assert(w.sock.Upgraded() && w.sock.Transport() == transports.Transport(cand), "an upgrade packet completes the switch")
			verif.SleepUntil(t0 + ut + 1)
			verif.Settle()
			verif.Assert(w.sock.ReadyState() == "open" && w.sock.Transport() == transports.Transport(cand) && cand.ReadyState() == "open", "no timer of the finished attempt is left behind: the adopted transport stays open")
			return
		}
		if w.sock.Upgrading() {
			// the candidate's close was dispatched before its listener existed: the attempt ends
			// with the upgrade timeout
			verif.SleepUntil(t0 + ut)
			verif.Settle()
			t0 = verif.Now()
		}
		verif.Assert(!w.sock.Upgrading() && !w.sock.Upgraded() && w.sock.Transport() == transports.Transport(main0), "a failed candidate leaves the session on its transport, not upgrading")
		verif.SleepUntil(t0 + 10e6)
		cand2 := w.candidate()
		w.sock.MaybeUpgrade(cand2)
		cand2.OnPacket(probePing())
		cand2.complete()
		verif.SleepUntil(t0 + ut + 1) // the first attempt's timeout instant has passed, the second one's has not
		verif.Settle()
		verif.Assert(w.sock.Upgrading() && cand2.ReadyState() == "open", "no timer of the failed attempt is left behind: the later attempt is still being entertained")
		cand2.OnPacket(&packet.Packet{Type: packet.UPGRADE, Data: types.NewStringBufferString("")})
		verif.Assert(w.sock.Upgraded() && w.sock.Transport() == transports.Transport(cand2), "and completes the switch")
	})
}
