package engine

import (
	"encoding/json"
	"io"
	"strings"
	"time"

	"github.com/quic-go/quic-go"
	"github.com/zishang520/engine.io/v2/transports"
	"github.com/zishang520/engine.io/v2/internal/zzmodels"
	verif "github.com/zishang520/engine.io/v2/internal/zzverif"
	wt "github.com/zishang520/webtransport-go"
)

// In symbolic runs the QUIC/WebTransport library calls of OnWebTransportSession are
// replaced by these models: the upgrade succeeds and the client's bidirectional stream is
// the in-memory stream prepared by the harness.

type c09Stream struct {
	in    []byte
	pos   int
	wire  []byte
	block chan struct{}
}

func (s *c09Stream) Read(p []byte) (int, error) {
	if s.pos < len(s.in) {
		n := copy(p, s.in[s.pos:])
		s.pos += n
		return n, nil
	}
	return 0, io.EOF
}
func (s *c09Stream) Write(p []byte) (int, error)     { s.wire = append(s.wire, p...); return len(p), nil }
func (s *c09Stream) Close() error                     { return nil }
func (s *c09Stream) StreamID() quic.StreamID          { return 0 }
func (s *c09Stream) CancelWrite(wt.StreamErrorCode)   {}
func (s *c09Stream) CancelRead(wt.StreamErrorCode)    {}
func (s *c09Stream) SetWriteDeadline(time.Time) error { return nil }
func (s *c09Stream) SetReadDeadline(time.Time) error  { return nil }
func (s *c09Stream) SetDeadline(time.Time) error      { return nil }

// c09DecodeFact is the library fact the path depends on, computed in both worlds (the
// json.Decoder model symbolically, the real decoder natively) and compared by translator
// validation: does decoding the handshake payload fail, and does it leave the pointer nil?
func c09DecodeFact(payload string) (failed bool, isNil bool) {
	var wth *struct {
		Sid string `json:"sid"`
	}
	failed = json.NewDecoder(strings.NewReader(payload)).Decode(&wth) != nil
	return failed, wth == nil
}

// VerifH_C09_wt_handshake_frame: the first frame a WebTransport client sends is arbitrary
// client input: whatever it is, the server must not panic and other sessions stay usable.
func VerifH_C09_wt_handshake_frame() {
	w := newSockWorld(transports.POLLING, "4")
	payloads := []string{"0", "0null", "0{\"sid\":\"\"}", "0{\"sid\":\"nosuch\"}", "0{", "0[1]", "4hello", "0{\"sid\":null}"}
	pl := payloads[verif.Choose(len(payloads))]
	if len(pl) > 1 && pl[0] == '0' {
		failed, isNil := c09DecodeFact(pl[1:])
		verif.Observe("decodeFailed", failed)
		verif.Observe("leftNil", isNil)
	}
	if !verif.Symbolic() {
		return // the entry point itself needs a QUIC session
	}
	frame := append([]byte{byte(len(pl))}, pl...) // one text frame
	zzmodels.AcceptedStream = &c09Stream{in: frame}
	ctx, _ := newCtx("CONNECT", "/engine.io/")
	ctx.Request().Proto = transports.WEBTRANSPORT
	w.ps.OnWebTransportSession(ctx, nil)
	verif.Settle()
	verif.Assert(w.sock.ReadyState() == "open", "the existing session is undisturbed")
}
