package engine

import (
	"github.com/zishang520/engine.io-go-parser/packet"
	"github.com/zishang520/engine.io/v2/transports"
	"github.com/zishang520/engine.io/v2/types"
	verif "github.com/zishang520/engine.io/v2/internal/zzverif"
)

// VerifH_C02_socket_dispatch: a script of inbound packets of every type on the session's
// current transport: each message packet is delivered exactly once as one 'data' and one
// 'message' event carrying the same payload, in order, while the session is open; after
// the session closed nothing is delivered.
func VerifH_C02_socket_dispatch() {
	eio := [2]string{"4", "3"}[verif.Choose(2)]
	w := newSockWorld(transports.WEBSOCKET, eio)
	var got []any
	var datas []any
	w.sock.On("message", func(a ...any) { got = append(got, a[0]) })
	w.sock.On("data", func(a ...any) { datas = append(datas, a[0]) })
	types_ := [8]packet.Type{packet.MESSAGE, packet.PING, packet.PONG, packet.NOOP, packet.UPGRADE, packet.OPEN, packet.CLOSE, packet.ERROR}
	var want []any
	open := true
	for step := 0; step < 3; step++ {
		t := types_[verif.Choose(8)]
		d := types.NewStringBufferString("x")
		w.ft.OnPacket(&packet.Packet{Type: t, Data: d})
		if open && t == packet.MESSAGE {
			want = append(want, d)
		}
		if w.sock.ReadyState() != "open" {
			open = false
		}
		verif.Assert(len(got) == len(want) && len(datas) == len(want), "each message packet yields exactly one message and one data event while open, none otherwise")
	}
	for i := range want {
		if i < len(got) {
			verif.Assert(got[i] == want[i] && datas[i] == want[i], "payloads in submission order, unchanged")
		}
	}
}
