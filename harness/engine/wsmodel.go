package engine

// A model of the gorilla/websocket connection for symbolic runs (plain Go, executed by
// the symbolic executor in place of the library; //verif:model binds each function to
// its callee).  State lives in side tables keyed by the *websocket.Conn pointer.  The
// model implements the documented contract the repository relies on: messages are
// delivered in order, a message larger than the read limit set with SetReadLimit fails the
// read (as gorilla does with close code 1009), writes are recorded.

import (
	"bytes"
	"io"
	"net"
	"net/http"

	ws "github.com/gorilla/websocket"
)

type wsMsg struct {
	mt   int
	data []byte
}

type wsState struct {
	limit   int64
	in      []wsMsg // what the client sends, in order
	inPos   int
	out     []wsMsg // what the server wrote
	closed  bool
	wake    chan struct{}
}

var wsStates = map[*ws.Conn]*wsState{}
var wsLastConn *ws.Conn
var wsPending []wsMsg // frames queued by the harness for the next accepted connection

func wsOf(c *ws.Conn) *wsState {
	s := wsStates[c]
	if s == nil {
		s = &wsState{wake: make(chan struct{}, 16)}
		wsStates[c] = s
	}
	return s
}

//verif:model (*github.com/gorilla/websocket.Upgrader).Upgrade
func mWsUpgrade(u *ws.Upgrader, w http.ResponseWriter, r *http.Request, h http.Header) (*ws.Conn, error) {
	c := &ws.Conn{}
	s := wsOf(c)
	s.in = wsPending
	wsPending = nil
	wsLastConn = c
	return c, nil
}

//verif:model (*github.com/gorilla/websocket.Conn).SetReadLimit
func mWsSetReadLimit(c *ws.Conn, limit int64) { wsOf(c).limit = limit }

//verif:model (*github.com/gorilla/websocket.Conn).RemoteAddr
func mWsRemoteAddr(c *ws.Conn) net.Addr { return c09Addr{} }

//verif:model (*github.com/gorilla/websocket.Conn).EnableWriteCompression
func mWsEnableWriteCompression(c *ws.Conn, enable bool) {}

var errWsReadLimit = &simpleErr{"websocket: read limit exceeded"}
var errWsClosed = &simpleErr{"websocket: close 1006 (abnormal closure)"}

//verif:model (*github.com/gorilla/websocket.Conn).NextReader
func mWsNextReader(c *ws.Conn) (int, io.Reader, error) {
	s := wsOf(c)
	for s.inPos >= len(s.in) && !s.closed {
		<-s.wake // the peer is silent
	}
	if s.closed {
		return -1, nil, errWsClosed
	}
	m := s.in[s.inPos]
	s.inPos++
	if s.limit > 0 && int64(len(m.data)) > s.limit {
		s.closed = true
		return -1, nil, errWsReadLimit
	}
	return m.mt, bytes.NewReader(m.data), nil
}

type wsWriter struct {
	s   *wsState
	mt  int
	buf []byte
}

func (w *wsWriter) Write(p []byte) (int, error) { w.buf = append(w.buf, p...); return len(p), nil }
func (w *wsWriter) Close() error {
	w.s.out = append(w.s.out, wsMsg{w.mt, w.buf})
	return nil
}

//verif:model (*github.com/gorilla/websocket.Conn).NextWriter
func mWsNextWriter(c *ws.Conn, mt int) (io.WriteCloser, error) {
	s := wsOf(c)
	if s.closed {
		return nil, errWsClosed
	}
	return &wsWriter{s: s, mt: mt}, nil
}

//verif:model (*github.com/gorilla/websocket.Conn).WriteMessage
func mWsWriteMessage(c *ws.Conn, mt int, data []byte) error {
	s := wsOf(c)
	s.out = append(s.out, wsMsg{mt, append([]byte(nil), data...)})
	return nil
}

var wsPrepared = map[*ws.PreparedMessage]wsMsg{}

//verif:model github.com/gorilla/websocket.NewPreparedMessage
func mWsNewPreparedMessage(mt int, data []byte) (*ws.PreparedMessage, error) {
	pm := &ws.PreparedMessage{}
	wsPrepared[pm] = wsMsg{mt, append([]byte(nil), data...)}
	return pm, nil
}

//verif:model (*github.com/gorilla/websocket.Conn).WritePreparedMessage
func mWsWritePreparedMessage(c *ws.Conn, pm *ws.PreparedMessage) error {
	s := wsOf(c)
	if s.closed {
		return errWsClosed
	}
	s.out = append(s.out, wsPrepared[pm])
	return nil
}
