package engine

// Harness-side environment for package engine: fake transports, response writers and
// request contexts.  Injected through a build overlay; never written to /repo.

import (
	"io"
	"net/http"
	"net/url"

	"github.com/zishang520/engine.io-go-parser/packet"
	"github.com/zishang520/engine.io/v2/transports"
	"github.com/zishang520/engine.io/v2/types"
	verif "github.com/zishang520/engine.io/v2/internal/zzverif"
)

// fakeWriter records the response.
type fakeWriter struct {
	hdr        http.Header
	status     []int
	bodies     [][]byte
	writeCalls int
}

func (w *fakeWriter) Header() http.Header {
	if w.hdr == nil {
		w.hdr = http.Header{}
	}
	return w.hdr
}
func (w *fakeWriter) WriteHeader(code int) { w.status = append(w.status, code) }
func (w *fakeWriter) Write(b []byte) (int, error) {
	w.writeCalls++
	w.bodies = append(w.bodies, append([]byte(nil), b...))
	return len(b), nil
}

// newCtx builds a request context through the real constructor.
func newCtx(method, path string) (*types.HttpContext, *fakeWriter) {
	w := &fakeWriter{}
	r := &http.Request{Method: method, URL: &url.URL{Path: path}, Header: http.Header{}, Proto: "HTTP/1.1", RemoteAddr: "192.0.2.1:1234"}
	c := types.NewHttpContext(w, r)
	verif.Cleanup(c.Flush)
	return c, w
}

// fakeTransport: the real transport base (state, events, Close/OnClose guards) with the
// wire replaced by a recorder.
type fakeTransport struct {
	transports.Transport
	name     string
	upgrades bool
	sent     [][]*packet.Packet
	doClose  int
	requests []*types.HttpContext
	onSend   func(*fakeTransport, []*packet.Packet)
	onRequest func(*types.HttpContext)
	holdClose bool // DoClose does not complete by itself (like polling waiting for a poll)
	pendingClose types.Callable
}

func newFakeTransport(name string, ctx *types.HttpContext) *fakeTransport {
	f := &fakeTransport{Transport: transports.MakeTransport(), name: name}
	f.Prototype(f)
	f.Construct(ctx)
	f.upgrades = name != transports.POLLING
	if name != transports.POLLING {
		f.SetWritable(true)
	}
	return f
}

func (f *fakeTransport) Name() string          { return f.name }
func (f *fakeTransport) HandlesUpgrades() bool { return f.upgrades }
func (f *fakeTransport) OnRequest(ctx *types.HttpContext) {
	f.requests = append(f.requests, ctx)
	if f.name == transports.POLLING && ctx.Method() == "GET" {
		// a poll request makes the polling transport writable
		f.SetWritable(true)
		f.Emit("ready")
	}
	if f.onRequest != nil {
		f.onRequest(ctx)
	}
}
func (f *fakeTransport) Send(p []*packet.Packet) {
	f.SetWritable(false)
	f.sent = append(f.sent, p)
	if f.onSend != nil {
		f.onSend(f, p)
	}
}
func (f *fakeTransport) DoClose(fn types.Callable) {
	f.doClose++
	if f.holdClose {
		f.pendingClose = fn
		return
	}
	if fn != nil {
		fn()
	}
	f.OnClose()
}

// complete finishes the write cycle of the last Send: drain, and the transport is ready
// again (for polling: as if the next poll had arrived).
func (f *fakeTransport) complete() {
	f.Emit("drain")
	f.SetWritable(true)
	f.Emit("ready")
}

// all packets handed to the transport, flattened in order.
func (f *fakeTransport) flat() []*packet.Packet {
	var out []*packet.Packet
	for _, b := range f.sent {
		out = append(out, b...)
	}
	return out
}

// recorder of events on any emitter.
type evRec struct {
	names []string
	args  [][]any
}

func (r *evRec) listen(e types.EventEmitter, names ...string) {
	for _, n := range names {
		n := n
		e.On(types.EventName(n), func(a ...any) {
			r.names = append(r.names, n)
			r.args = append(r.args, a)
		})
	}
}
func (r *evRec) count(name string) int {
	c := 0
	for _, n := range r.names {
		if n == name {
			c++
		}
	}
	return c
}
func (r *evRec) first(name string) int {
	for i, n := range r.names {
		if n == name {
			return i
		}
	}
	return -1
}

// protoServer: the real server with CreateTransport replaced (prototype override).
type protoServer struct {
	*server
	made   []*fakeTransport
	failCT bool
	holdClose bool
	onMade func(*fakeTransport)
}

func newProtoServer(opt any) *protoServer {
	ps := &protoServer{server: MakeServer().(*server)}
	ps.Prototype(ps)
	ps.Construct(opt)
	return ps
}

func (ps *protoServer) CreateTransport(name string, ctx *types.HttpContext) (transports.Transport, error) {
	if ps.failCT {
		return nil, errCT
	}
	f := newFakeTransport(name, ctx)
	f.holdClose = ps.holdClose
	ps.made = append(ps.made, f)
	if ps.onMade != nil {
		ps.onMade(f)
	}
	return f, nil
}

type simpleErr struct{ s string }

func (e *simpleErr) Error() string { return e.s }

var errCT = &simpleErr{"create transport failed"}

func mustURL(s string) *url.URL {
	u, err := url.Parse(s)
	if err != nil {
		panic(err)
	}
	return u
}

func readAllOf(v any) []byte {
	if b, ok := v.(interface{ Bytes() []byte }); ok {
		return b.Bytes()
	}
	return nil
}

func ioEOF() error { return io.EOF }
