package engine

import (
	"time"

	"github.com/zishang520/engine.io-go-parser/packet"
	"github.com/zishang520/engine.io/v2/config"
	"github.com/zishang520/engine.io/v2/transports"
	"github.com/zishang520/engine.io/v2/types"
	verif "github.com/zishang520/engine.io/v2/internal/zzverif"
)

// lifeWorld: a real session from the real Handshake on a fake websocket-like transport,
// with every session event recorded together with the ready state seen at that moment.
type lifeWorld struct {
	ps    *protoServer
	ft    *fakeTransport
	sock  Socket
	names []string
	args  [][]any
	rank  []int
}

func stateRank(s string) int {
	switch s {
	case "opening":
		return 0
	case "open":
		return 1
	case "closing":
		return 2
	case "closed":
		return 3
	}
	return -1
}

var lifeEvents = []string{"open", "packet", "message", "heartbeat", "upgrade", "upgrading", "flush", "drain", "packetCreate", "close", "error"}

func newLifeWorld(interval, timeout time.Duration) *lifeWorld {
	opts := config.DefaultServerOptions()
	opts.SetPingInterval(interval)
	opts.SetPingTimeout(timeout)
	ps := newProtoServer(opts)
	ctx, _ := newCtx("GET", "/engine.io/")
	ctx.Query().Set("transport", transports.WEBSOCKET)
	ctx.Query().Set("EIO", "4")
	w := &lifeWorld{ps: ps}
	ps.On("connection", func(a ...any) {
		s := a[0].(Socket)
		verif.Assert(s.ReadyState() == "open", "the application is handed the session while it is open")
		w.sock = s
		for _, n := range lifeEvents {
			n := n
			s.On(types.EventName(n), func(a ...any) {
				w.names = append(w.names, n)
				w.args = append(w.args, a)
				w.rank = append(w.rank, stateRank(s.ReadyState()))
			})
		}
	})
	_, tr := ps.Handshake(transports.WEBSOCKET, ctx)
	verif.Assume(tr != nil && w.sock != nil)
	w.ft = ps.made[0]
	w.ft.complete()
	return w
}

func (w *lifeWorld) count(name string) int {
	c := 0
	for _, n := range w.names {
		if n == name {
			c++
		}
	}
	return c
}

var lifeReasons = [7]string{"transport close", "transport error", "ping timeout", "parse error", "forced close", "forced close", "forced close"}

func (w *lifeWorld) cause(k int, deadline int64) {
	switch k {
	case 0:
		w.ft.OnClose()
	case 1:
		w.ft.OnError("boom", nil)
	case 2:
		// the client stays silent: ping, then the pong deadline passes
		verif.SleepUntil(deadline)
	case 3:
		w.ft.OnPacket(&packet.Packet{Type: packet.ERROR})
	case 4:
		w.sock.Close(false)
	case 5:
		w.sock.Close(true)
	case 6:
		w.ps.Close()
	}
}

// c03Causes: two close causes in sequence, optionally a third one injected atomically at
// any yield point (debug log call) inside the handlers of the first two.
func c03Causes(inject bool) {
	const I, T = int64(1000), int64(500)
	w := newLifeWorld(time.Duration(I), time.Duration(T))
	a, b := verif.Choose(7), verif.Choose(7)
	x := -1
	if inject {
		x = verif.Choose(6)
		if x >= 2 {
			x++ // the timer cause cannot be injected as a call; skip it
		}
		xx := x
		verif.Event("cause", func() { w.cause(xx, 0) })
	}
	// some ordinary traffic first
	w.sock.Send(types.NewStringBufferString("hello"), nil, nil)
	w.ft.OnPacket(&packet.Packet{Type: packet.MESSAGE, Data: types.NewStringBufferString("in")})
	w.ft.complete()
	verif.Assert(w.count("close") == 0 && w.sock.ReadyState() == "open", "no close cause: the session stays open")

	if inject {
		verif.InjectBudget(1)
	}
	w.cause(a, I+T)
	if a == 4 {
		w.ft.complete() // graceful close waits for the transport to drain
	}
	verif.InjectBudget(0)
	closedAt := len(w.names)
	verif.Assert(w.count("close") == 1, "exactly one close event after the first cause")
	if w.count("close") >= 1 {
		i := 0
		for w.names[i] != "close" {
			i++
		}
		r, _ := w.args[i][0].(string)
		if x < 0 {
			verif.Assert(r == lifeReasons[a], "close event carries the reason of its cause")
		} else {
			verif.Assert(r == lifeReasons[a] || r == lifeReasons[x], "close event carries the reason of a cause that happened")
		}
	}
	verif.Assert(w.sock.ReadyState() == "closed", "closed after the close event")
	_, still := w.ps.Clients().Load(w.sock.Id())
	verif.Assert(!still && w.ps.ClientsCount() == 0, "a closed session is no longer registered")

	// the second cause and any later activity change nothing
	w.cause(b, 3*(I+T))
	sent := len(w.ft.sent)
	w.sock.Send(types.NewStringBufferString("late"), nil, func(transports.Transport) { verif.Unreachable("callback of a discarded Send ran") })
	w.ft.OnPacket(&packet.Packet{Type: packet.MESSAGE, Data: types.NewStringBufferString("late-in")})
	w.ft.OnPacket(&packet.Packet{Type: packet.PONG})
	w.ft.complete()
	verif.SleepUntil(verif.Now() + 5*(I+T))
	verif.Settle()
	verif.Assert(len(w.ft.sent) == sent, "Send after close is discarded")
	verif.Assert(len(w.names) == closedAt, "nothing at all is emitted after the close event")
	verif.Assert(w.sock.ReadyState() == "closed", "state stays closed")
	// forward-only ready state as seen by every listener
	for i := 1; i < len(w.rank); i++ {
		verif.Assert(w.rank[i] >= w.rank[i-1], "ready state only moves forward")
	}
	verif.Assert(w.ps.ClientsCount() == 0 && w.ps.Clients().Len() == 0, "registry and count agree with the set of live sessions")
}

func VerifH_C03_two_causes() { verif.RunTimed(func() { c03Causes(false) }) }
func VerifH_C03_injected()   { verif.RunTimed(func() { c03Causes(true) }) }

// VerifH_C03_dies_in_handshake: the transport reports its close or an error to the session
// at any yield point while the session is still being constructed (the session's listeners
// are already attached): the session is closed for good -- it is never opened afterwards,
// never handed to the application as a live session, never registered, and its later
// heartbeat deadline does not close it a second time.
func VerifH_C03_dies_in_handshake() {
	verif.RunTimed(func() {
		opts := config.DefaultServerOptions()
		opts.SetPingInterval(1000)
		opts.SetPingTimeout(500)
		ps := newProtoServer(opts)
		var handed Socket
		closes := 0
		ps.On("connection", func(a ...any) {
			handed = a[0].(Socket)
			handed.On("close", func(...any) { closes++ })
		})
		kind := verif.Choose(2)
		sawCause := false
		hold := verif.Bool() // the transport of a failed session may take a while to finish closing
		ps.onMade = func(f *fakeTransport) {
			f.holdClose = hold
			verif.Event("transport dies", func() {
				if kind == 0 {
					if f.ListenerCount("close") == 0 {
						return // the session does not listen yet: it cannot know
					}
					sawCause = true
					f.OnClose()
				} else {
					if f.ListenerCount("error") == 0 {
						return
					}
					sawCause = true
					f.OnError("reset", nil)
				}
			})
			verif.InjectBudget(1)
		}
		ctx, _ := newCtx("GET", "/engine.io/")
		tn := [2]string{transports.POLLING, transports.WEBSOCKET}[verif.Choose(2)]
		ctx.Query().Set("transport", tn)
		ctx.Query().Set("EIO", [2]string{"4", "3"}[verif.Choose(2)])
		ps.Handshake(tn, ctx)
		verif.InjectBudget(0)
		verif.Settle()
		if !sawCause {
			return
		}
		ft := ps.made[0]
		_, registered := ps.Clients().Load(ft.Sid())
		verif.Assert(!registered && ps.ClientsCount() == 0, "a session that saw a close cause during its construction is not registered")
		if handed != nil {
			verif.Assert(handed.ReadyState() == "closed", "a session that saw a close cause is never open afterwards")
		}
		verif.SleepUntil(verif.Now() + 5000)
		verif.Settle()
		verif.Assert(closes == 0, "and it does not close a second time later")
		if handed != nil {
			verif.Assert(handed.ReadyState() == "closed", "state stays closed")
		}
	})
}

// VerifH_C03_upgrade_while_closing: a graceful Close with data still buffered (state
// 'closing', waiting for the drain) and then the client completes a transport upgrade: the
// buffered data goes out on the new transport, the session closes exactly once, and nothing
// -- in particular no 'upgrade' event -- is emitted after the close event; the ready state
// seen by the listeners only moves forward.
func VerifH_C03_upgrade_while_closing() {
	verif.RunTimed(func() {
		w := newUpWorld()
		var names []string
		var ranks []int
		reason := ""
		for _, n := range lifeEvents {
			n := n
			w.sock.On(types.EventName(n), func(a ...any) {
				names = append(names, n)
				ranks = append(ranks, stateRank(w.sock.ReadyState()))
				if n == "close" && len(a) > 0 {
					reason, _ = a[0].(string)
				}
			})
		}
		cand := w.candidate()
		buffered := verif.Bool()
		if buffered {
			w.send(1, false) // goes out on the pending poll
			w.send(2, false) // buffered: polling is busy
		} else {
			// nothing buffered, but the old transport cannot finish closing by itself (a polling
			// transport between two polls buffers the orderly close): the session stays 'closing'
			w.ft.holdClose = true
		}
		before := verif.Bool()
		if before {
			w.sock.Close(false)
			verif.Assert(w.sock.ReadyState() == "closing", "closing, waiting for the buffered data to drain (or for the old transport to finish)")
		}
		w.sock.MaybeUpgrade(cand)
		cand.OnPacket(probePing())
		cand.complete()
		if !before {
			w.sock.Close(false)
		}
		cand.OnPacket(&packet.Packet{Type: packet.UPGRADE, Data: types.NewStringBufferString("")})
		cand.complete()
		verif.Settle()
		nclose, at := 0, -1
		for i, n := range names {
			if n == "close" {
				nclose++
				if at < 0 {
					at = i
				}
			}
		}
		verif.Assert(nclose == 1 && w.sock.ReadyState() == "closed", "the closing session closes exactly once")
		verif.Assert(reason == "forced close", "and the close event carries the reason of its cause: the application's close")
		if at >= 0 {
			verif.Assert(at == len(names)-1, "nothing is emitted after the close event")
		}
		for i := 1; i < len(ranks); i++ {
			verif.Assert(ranks[i] >= ranks[i-1], "ready state only moves forward")
		}
		n := 0
		for _, p := range append(w.ft.flat(), cand.flat()...) {
			if p.Type == packet.MESSAGE {
				n++
			}
		}
		if buffered {
			verif.Assert(n == 2, "the data buffered before the graceful close is handed to a transport exactly once")
		}
	})
}
