package engine

import (
	"io"
	"time"

	"github.com/quic-go/quic-go"
	"github.com/zishang520/engine.io/v2/config"
	"github.com/zishang520/engine.io/v2/transports"
	"github.com/zishang520/engine.io/v2/types"
	"github.com/zishang520/engine.io/v2/webtransport"
	"github.com/zishang520/engine.io/v2/internal/zzmodels"
	verif "github.com/zishang520/engine.io/v2/internal/zzverif"
	wt "github.com/zishang520/webtransport-go"
)

// gateStream: an in-memory WebTransport stream whose peer is silent and whose writes can be
// held back (flow control) until the harness opens the gate.
type gateStream struct {
	wire   []byte
	writes int
	gate   chan struct{} // when non-nil, Write waits for it
	block  chan struct{}
}

func (s *gateStream) Write(p []byte) (int, error) {
	if g := s.gate; g != nil {
		<-g
	}
	s.writes++
	s.wire = append(s.wire, p...)
	return len(p), nil
}
func (s *gateStream) Read(p []byte) (int, error) {
	<-s.block
	return 0, io.EOF
}
func (s *gateStream) Close() error                     { return nil }
func (s *gateStream) StreamID() quic.StreamID          { return 0 }
func (s *gateStream) CancelWrite(wt.StreamErrorCode)   {}
func (s *gateStream) CancelRead(wt.StreamErrorCode)    {}
func (s *gateStream) SetWriteDeadline(time.Time) error { return nil }
func (s *gateStream) SetReadDeadline(time.Time) error  { return nil }
func (s *gateStream) SetDeadline(time.Time) error      { return nil }

// wtServer: the real server whose CreateTransport builds the REAL WebTransport transport
// over a real webtransport.Conn on a gateStream.
type wtServer struct {
	*server
	st *gateStream
}

func (ws *wtServer) CreateTransport(name string, ctx *types.HttpContext) (transports.Transport, error) {
	ctx.WebTransport = &types.WebTransportConn{EventEmitter: types.NewEventEmitter(), Conn: webtransport.NewConn(zzmodels.StubSession(), ws.st, true, 16, 4, nil, nil, nil)}
	return transports.NewWebTransport(ctx), nil
}

// VerifH_C18_callback_order_on_real_transport: a real session on the real WebTransport
// transport (its own writer goroutine and its own drain / writable / ready order).  While
// the writer is held back by a slow stream two messages with callbacks A and B are buffered;
// callback A sends a third message with callback C and takes its time.  The callbacks run
// in the order of their sends: A, B, C -- each once.
func VerifH_C18_callback_order_on_real_transport() {
	st := &gateStream{block: make(chan struct{})}
	verif.Cleanup(func() { close(st.block) })
	ws := &wtServer{server: MakeServer().(*server), st: st}
	ws.Prototype(ws)
	ws.Construct(config.DefaultServerOptions())
	ctx, _ := newCtx("GET", "/engine.io/")
	ctx.Query().Set("transport", transports.WEBTRANSPORT)
	ctx.Query().Set("EIO", "4")
	var sock Socket
	ws.On("connection", func(a ...any) { sock = a[0].(Socket) })
	_, tr := ws.Handshake(transports.WEBTRANSPORT, ctx)
	verif.Assume(tr != nil && sock != nil)
	verif.Settle() // the open packet has been written
	var order []string
	st.gate = make(chan struct{})
	sock.Send(types.NewStringBufferString("x"), nil, nil) // keeps the writer busy
	verif.Settle()
	slow := verif.Bool()
	sock.Send(types.NewStringBufferString("a"), nil, func(transports.Transport) {
		order = append(order, "A")
		sock.Send(types.NewStringBufferString("c"), nil, func(transports.Transport) { order = append(order, "C") })
		if slow {
			verif.TakeTime() // the callback takes its time
		}
	})
	sock.Send(types.NewStringBufferString("b"), nil, func(transports.Transport) { order = append(order, "B") })
	verif.Settle()
	verif.Assert(len(order) == 0, "no callback before its batch has been written")
	g := st.gate
	st.gate = nil
	close(g)
	for i := 0; i < 4; i++ {
		verif.Settle()
	}
	verif.Assert(len(order) == 3, "every callback runs exactly once")
	if len(order) == 3 {
		verif.Assert(order[0] == "A" && order[1] == "B" && order[2] == "C", "send callbacks run in the order of their sends")
	}
	verif.Assert(sock.ReadyState() == "open", "the session stays open")
}
