package engine

import (
	"io"
	"time"

	"github.com/zishang520/engine.io-go-parser/packet"
	"github.com/zishang520/engine.io/v2/config"
	"github.com/zishang520/engine.io/v2/transports"
	"github.com/zishang520/engine.io/v2/types"
	verif "github.com/zishang520/engine.io/v2/internal/zzverif"
)

func bytesOf(r io.Reader) []byte {
	if b, ok := r.(interface{ Bytes() []byte }); ok {
		return b.Bytes()
	}
	return nil
}

func hasStr(l []string, s string) bool {
	for _, x := range l {
		if x == s {
			return true
		}
	}
	return false
}

// c06Handshake: one admitted handshake on transport tn with revision from eio; checks
// the connection event, the registry and the open packet against the configuration.
func c06Check(ps *protoServer, tn string, eio string, sessionNo int, interval, timeout time.Duration, maxPayload int64, enW, enT, allowUp bool, initial []byte, rec *evRec) {
	ctx, _ := newCtx("GET", "/engine.io/")
	ctx.Query().Set("transport", tn)
	if eio != "" {
		ctx.Query().Set("EIO", eio)
	}
	b64 := verif.Bool()
	if b64 {
		ctx.Query().Set("b64", "1")
	}
	before := len(ps.made)
	nconn := rec.count("connection")
	cm, tr := ps.Handshake(tn, ctx)
	verif.Assert(cm == nil && tr != nil, "admitted handshake succeeds")
	if tr == nil {
		return
	}
	verif.Assert(len(ps.made) == before+1, "one transport created")
	verif.Assert(rec.count("connection") == nconn+1, "exactly one connection event")
	verif.Assert(ps.ClientsCount() == uint64(sessionNo) && ps.Clients().Len() == sessionNo, "exactly one session registered")
	ft := ps.made[before]
	sock, ok := ps.Clients().Load(ft.Sid())
	verif.Assert(ok && sock.Id() == ft.Sid() && len(ft.Sid()) > 0, "session reachable under its own id")
	if !ok {
		return
	}
	wantProto := 3
	if eio == "4" {
		wantProto = 4
	}
	verif.Assert(sock.Protocol() == wantProto && ft.Protocol() == wantProto, "revision from the EIO parameter")
	verif.Assert(ft.SupportsBinary() == !b64, "the b64 flag (on every revision and transport) selects the base64 form of binary packets")
	ft.complete() // the client reads the first batch and is ready for the next
	pk := ft.flat()
	verif.Assert(len(pk) >= 1 && pk[0].Type == packet.OPEN, "first packet is the open packet")
	if len(pk) == 0 {
		return
	}
	b := bytesOf(pk[0].Data)
	verif.Assert(verif.JSONString(b, "sid") == sock.Id(), "open packet carries the session id")
	verif.Assert(verif.JSONInt(b, "pingInterval") == int64(interval/time.Millisecond), "ping interval in milliseconds")
	verif.Assert(verif.JSONInt(b, "pingTimeout") == int64(timeout/time.Millisecond), "ping timeout in milliseconds")
	verif.Assert(verif.JSONInt(b, "maxPayload") == maxPayload, "configured maximum payload")
	verif.Assert(verif.JSONIsList(b, "upgrades"), "the open packet always carries an upgrades list (possibly empty)")
	ups := verif.JSONStrings(b, "upgrades")
	wantW := tn == transports.POLLING && allowUp && enW
	wantT := tn == transports.POLLING && allowUp && enT
	n := 0
	if wantW {
		n++
	}
	if wantT {
		n++
	}
	verif.Assert(len(ups) == n && hasStr(ups, transports.WEBSOCKET) == wantW && hasStr(ups, transports.WEBTRANSPORT) == wantT, "upgrades = enabled upgrade targets of the chosen transport")
	if initial != nil {
		verif.Assert(len(pk) == 2 && pk[1].Type == packet.MESSAGE, "initial packet is the first message right after the open packet")
		if len(pk) == 2 && pk[1].Data != nil {
			// the kind of the configured message (text or binary) is what the transports encode by
			_, isText := pk[1].Data.(*types.StringBuffer)
			verif.Assert(isText == c06InitialText, "initial packet keeps its kind (text / binary)")
			got, _ := io.ReadAll(pk[1].Data)
			verif.Assert(len(got) == len(initial), "initial packet payload length")
			if len(got) == len(initial) {
				for i := range got {
					verif.Assert(got[i] == initial[i], "initial packet payload bytes")
				}
			}
		}
	} else {
		verif.Assert(len(pk) == 1, "nothing but the open packet")
	}
}

// c06InitialText: the configured initial packet is a text (StringBuffer) or a binary (BytesBuffer) message.
var c06InitialText bool

func VerifH_C06_handshake() { verif.RunTimed(c06Handshake) }

// (under virtual time: natively the heartbeat timers of tiny intervals must not fire while the harness looks)
func c06Handshake() {
	opts := config.DefaultServerOptions()
	interval, timeout := time.Duration(verif.Int64()), time.Duration(verif.Int64())
	verif.Assume(interval >= 1 && timeout >= 1 && interval < 1<<50 && timeout < 1<<50)
	maxPayload := verif.Int64()
	opts.SetPingInterval(interval)
	opts.SetPingTimeout(timeout)
	opts.SetMaxHttpBufferSize(maxPayload)
	tset := types.NewSet[string](transports.POLLING)
	enW, enT := false, false
	switch verif.Choose(4) {
	case 1:
		enW = true
	case 2:
		enT = true
	case 3:
		enW, enT = true, true
	}
	if enW {
		tset.Add(transports.WEBSOCKET)
	}
	if enT {
		tset.Add(transports.WEBTRANSPORT)
	}
	opts.SetTransports(tset)
	allowUp := verif.Choose(2) == 0
	opts.SetAllowUpgrades(allowUp)
	opts.SetAllowEIO3(true)
	var initial []byte
	if verif.Choose(2) == 1 {
		initial = verif.BytesN(verif.Int(0, 3))
		c06InitialText = verif.Bool()
		if c06InitialText {
			opts.SetInitialPacket(types.NewStringBuffer(append([]byte(nil), initial...)))
		} else {
			opts.SetInitialPacket(types.NewBytesBuffer(append([]byte(nil), initial...)))
		}
	}
	ps := newProtoServer(opts)
	rec := &evRec{}
	rec.listen(ps, "connection", "connection_error")
	tn := transports.POLLING
	switch verif.Choose(3) {
	case 1:
		if !enW {
			return
		}
		tn = transports.WEBSOCKET
	case 2:
		if !enT {
			return
		}
		tn = transports.WEBTRANSPORT
	}
	eio := [3]string{"4", "3", ""}[verif.Choose(3)]
	c06Check(ps, tn, eio, 1, interval, timeout, maxPayload, enW, enT, allowUp, initial, rec)
	// a second session of the same server gets the same treatment
	c06Check(ps, transports.POLLING, "4", 2, interval, timeout, maxPayload, enW, enT, allowUp, initial, rec)
	// the first session's open packet may still be waiting to be encoded by its transport's
	// writer when the second handshake runs: it must still be the FIRST session's packet
	if len(ps.made) == 2 {
		if pk := ps.made[0].flat(); len(pk) > 0 && pk[0].Type == packet.OPEN {
			verif.Assert(verif.JSONString(bytesOf(pk[0].Data), "sid") == ps.made[0].Sid(), "a session's open packet still carries its own id after a later handshake")
		}
	}
	verif.Assert(rec.count("connection_error") == 0, "no connection_error for admitted handshakes")
}

// Revision 3 handshakes are refused when revision 3 is not allowed: no session, no event.
func VerifH_C06_revision_gate() {
	opts := config.DefaultServerOptions()
	allow3 := verif.Bool()
	opts.SetAllowEIO3(allow3)
	ps := newProtoServer(opts)
	rec := &evRec{}
	rec.listen(ps, "connection", "connection_error")
	eio := verif.String(2)
	ctx, _ := newCtx("GET", "/engine.io/")
	ctx.Query().Set("transport", transports.POLLING)
	if len(eio) > 0 || verif.Bool() {
		ctx.Query().Set("EIO", eio)
	}
	cm, tr := ps.Handshake(transports.POLLING, ctx)
	is4 := eio == "4"
	if is4 || allow3 {
		verif.Assert(cm == nil && tr != nil && rec.count("connection") == 1 && ps.ClientsCount() == 1, "admitted")
		if sock, ok := ps.Clients().Load(ps.made[0].Sid()); ok {
			want := 3
			if is4 {
				want = 4
			}
			verif.Assert(sock.Protocol() == want, "revision 4 only for EIO=4")
		}
	} else {
		verif.Assert(cm != nil && tr == nil, "refused")
		verif.Assert(rec.count("connection") == 0 && rec.count("connection_error") == 1, "one connection_error, no connection")
		verif.Assert(ps.ClientsCount() == 0 && ps.Clients().Len() == 0 && len(ps.made) == 0, "no session created")
	}
}

// Two servers with different transport sets in one process: each open packet advertises
// the upgrades of ITS OWN server, whatever the other one handled before.
func VerifH_C06_two_servers() {
	mk := func() (*protoServer, bool, bool) {
		opts := config.DefaultServerOptions()
		tset := types.NewSet[string](transports.POLLING)
		enW, enT := verif.Bool(), verif.Bool()
		if enW {
			tset.Add(transports.WEBSOCKET)
		}
		if enT {
			tset.Add(transports.WEBTRANSPORT)
		}
		opts.SetTransports(tset)
		return newProtoServer(opts), enW, enT
	}
	a, aW, aT := mk()
	b, bW, bT := mk()
	recA, recB := &evRec{}, &evRec{}
	recA.listen(a, "connection", "connection_error")
	recB.listen(b, "connection", "connection_error")
	iv, to, mp := a.Opts().PingInterval(), a.Opts().PingTimeout(), a.Opts().MaxHttpBufferSize()
	c06Check(a, transports.POLLING, "4", 1, iv, to, mp, aW, aT, true, nil, recA)
	c06Check(b, transports.POLLING, "4", 1, b.Opts().PingInterval(), b.Opts().PingTimeout(), b.Opts().MaxHttpBufferSize(), bW, bT, true, nil, recB)
	c06Check(a, transports.POLLING, "4", 2, iv, to, mp, aW, aT, true, nil, recA)
}
