package engine

import (
	"github.com/zishang520/engine.io-go-parser/packet"
	"github.com/zishang520/engine.io/v2/config"
	"github.com/zishang520/engine.io/v2/transports"
	"github.com/zishang520/engine.io/v2/types"
	verif "github.com/zishang520/engine.io/v2/internal/zzverif"
)

type regWorld struct {
	ps    *protoServer
	socks []Socket
	fts   []*fakeTransport
	live  []bool
}

func (w *regWorld) handshake() {
	ctx, _ := newCtx("GET", "/engine.io/")
	tn := [2]string{transports.POLLING, transports.WEBSOCKET}[verif.Choose(2)]
	ctx.Query().Set("transport", tn)
	ctx.Query().Set("EIO", "4")
	before := len(w.ps.made)
	_, tr := w.ps.Handshake(tn, ctx)
	verif.Assert(tr != nil && len(w.ps.made) == before+1, "handshake admitted")
	if tr == nil {
		return
	}
	ft := w.ps.made[before]
	s, ok := w.ps.Clients().Load(ft.Sid())
	verif.Assert(ok, "a new session is reachable under its id")
	w.socks = append(w.socks, s)
	w.fts = append(w.fts, ft)
	w.live = append(w.live, true)
}

func (w *regWorld) check(what string) {
	n := 0
	for i, s := range w.socks {
		got, ok := w.ps.Clients().Load(s.Id())
		if w.live[i] {
			n++
			verif.Assert(ok && got == s, what+": every live session is reachable under its own id")
			verif.Assert(s.ReadyState() != "closed", what+": a live session is not closed")
		} else {
			verif.Assert(!ok, what+": no closed session remains reachable")
			// a request naming it is answered 'Session ID unknown'
			ctx, _ := newCtx("GET", "/engine.io/")
			ctx.Query().Set("transport", transports.POLLING)
			ctx.Query().Set("sid", s.Id())
			cm, _ := w.ps.Verify(ctx, false)
			verif.Assert(cm != nil && cm.Code == 1, what+": a request naming a closed session is answered 'Session ID unknown'")
		}
	}
	verif.Assert(w.ps.ClientsCount() == uint64(n) && w.ps.Clients().Len() == n, what+": count and table equal the number of live sessions")
	for i := range w.socks {
		for j := i + 1; j < len(w.socks); j++ {
			verif.Assert(w.socks[i].Id() != w.socks[j].Id(), what+": session ids are unique")
		}
	}
}

func (w *regWorld) closeOne(i int) {
	switch verif.Choose(6) {
	case 0:
		w.fts[i].OnClose()
	case 1:
		w.fts[i].OnError("x", nil)
	case 2:
		w.fts[i].OnPacket(&packet.Packet{Type: packet.ERROR})
	case 3:
		w.socks[i].Close(true)
	case 4:
		w.socks[i].Close(false)
		w.fts[i].complete()
	case 5:
		// graceful close with packets still buffered: it completes from inside the hand-off
		// that drains them (the transport's close callback runs synchronously)
		w.socks[i].Send(types.NewStringBufferString("a"), nil, nil)
		w.socks[i].Send(types.NewStringBufferString("b"), nil, nil)
		w.socks[i].Close(false)
		w.fts[i].complete()
		w.fts[i].complete()
		w.fts[i].complete()
	}
	w.live[i] = false
}

// VerifH_C04_scripts: every script of handshakes and closes (any cause) over up to 3
// sessions keeps table, count and live set equal.
func VerifH_C04_scripts() {
	w := &regWorld{ps: newProtoServer(config.DefaultServerOptions())}
	steps := 4 + verif.Tier()
	for step := 0; step < steps; step++ {
		if len(w.socks) < 3 && (len(w.socks) == 0 || verif.Bool()) {
			w.handshake()
		} else {
			i := verif.Choose(len(w.socks))
			w.closeOne(i) // closing an already closed session again must change nothing
		}
		w.check("after each step")
	}
	if verif.Bool() {
		w.ps.Close()
		for i := range w.live {
			w.live[i] = false
		}
		w.check("after server shutdown")
	}
}

// VerifH_C04_dies_in_handshake: the transport fails or is closed by the peer at any yield
// point (debug log call) while the handshake is still being completed.
func VerifH_C04_dies_in_handshake() {
	ps := newProtoServer(config.DefaultServerOptions())
	conn := 0
	var handed Socket
	ps.On("connection", func(a ...any) { conn++; handed = a[0].(Socket) })
	kind := verif.Choose(2)
	hold := verif.Bool() // the transport of a failed session may take a while to finish closing
	ps.onMade = func(f *fakeTransport) {
		f.holdClose = hold
		verif.Event("transport dies", func() {
			if kind == 0 {
				f.OnClose()
			} else {
				f.OnError("reset", nil)
			}
		})
		verif.InjectBudget(1)
	}
	ctx, _ := newCtx("GET", "/engine.io/")
	tn := [2]string{transports.POLLING, transports.WEBSOCKET}[verif.Choose(2)]
	ctx.Query().Set("transport", tn)
	ctx.Query().Set("EIO", "4")
	ps.Handshake(tn, ctx)
	verif.InjectBudget(0)
	verif.Settle()
	ft := ps.made[0]
	died := ft.ReadyState() == "closed" || ft.ListenerCount("close") == 0
	s, registered := ps.Clients().Load(ft.Sid())
	if registered {
		verif.Assert(s.ReadyState() != "closed", "no closed session remains registered")
		verif.Assert(ps.ClientsCount() == 1, "count matches the table")
	} else {
		verif.Assert(ps.ClientsCount() == 0 && ps.Clients().Len() == 0, "count matches the table")
	}
	if conn > 0 && handed != nil && !died {
		verif.Assert(handed.ReadyState() == "open", "the application is handed the session while it is open")
	}
	// and the server keeps working
	ps.onMade = nil
	before := ps.ClientsCount()
	ctx2, _ := newCtx("GET", "/engine.io/")
	ctx2.Query().Set("transport", transports.POLLING)
	ctx2.Query().Set("EIO", "4")
	_, tr := ps.Handshake(transports.POLLING, ctx2)
	verif.Assert(tr != nil && ps.ClientsCount() == before+1, "a later handshake is unaffected")
	_ = types.NULL
}

// VerifH_C04_upgrade_then_close: histories that include an upgrade attempt (completed,
// abandoned by the candidate, or timed out) before the session closes: the closed session
// leaves the table and the count drops, exactly as without an upgrade.
func VerifH_C04_upgrade_then_close() {
	verif.RunTimed(func() {
		w := newUpWorld()
		cand := w.candidate()
		w.sock.MaybeUpgrade(cand)
		cur := w.ft
		switch verif.Choose(4) {
		case 0: // completed
			cand.OnPacket(probePing())
			cand.OnPacket(&packet.Packet{Type: packet.UPGRADE, Data: types.NewStringBufferString("")})
			cur = cand
		case 1: // candidate goes away
			cand.OnClose()
		case 2: // candidate misbehaves
			cand.OnPacket(&packet.Packet{Type: packet.MESSAGE, Data: types.NewStringBufferString("x")})
		case 3: // upgrade timeout
			verif.SleepUntil(verif.Now() + int64(w.ps.Opts().UpgradeTimeout()))
		}
		verif.Assert(w.ps.Clients().Len() == 1 && w.ps.ClientsCount() == 1 && w.sock.ReadyState() == "open", "the session is live and registered after the upgrade attempt")
		switch verif.Choose(3) {
		case 0:
			cur.OnClose()
		case 1:
			w.sock.Close(true)
		case 2:
			cur.OnError("x", nil)
		}
		_, still := w.ps.Clients().Load(w.sock.Id())
		verif.Assert(w.sock.ReadyState() == "closed" && !still, "a closed session is no longer reachable")
		verif.Assert(w.ps.Clients().Len() == 0 && w.ps.ClientsCount() == 0, "table and count drop back")
	})
}

// VerifH_C04_shutdown_with_closing_session: server shutdown while one session is still
// 'closing' (a graceful close whose transport has not finished, like a polling transport
// waiting for the next poll): such a session is still live, so it stays registered and
// counted until it really closes; afterwards table and count drop to exactly zero, and a
// later handshake on the same server object is counted from there.
func VerifH_C04_shutdown_with_closing_session() {
	w := &regWorld{ps: newProtoServer(config.DefaultServerOptions())}
	n := 1 + verif.Choose(2)
	for i := 0; i < n; i++ {
		w.handshake()
	}
	k := verif.Choose(n)
	w.fts[k].holdClose = true
	w.socks[k].Close(false) // the transport starts closing and does not finish by itself
	verif.Assert(w.socks[k].ReadyState() == "closing", "graceful close in progress")
	w.check("while one session is closing")
	w.ps.Close()
	for i := range w.live {
		if i != k {
			w.live[i] = false
		}
	}
	if w.socks[k].ReadyState() == "closed" {
		w.live[k] = false
	}
	w.check("after shutdown with a session still closing")
	// the pending close completes (next poll / close timeout)
	if fn := w.fts[k].pendingClose; fn != nil && w.live[k] {
		w.fts[k].pendingClose = nil
		fn()
		w.fts[k].OnClose()
	}
	w.live[k] = false
	w.check("after the closing session has closed")
	w.handshake()
	w.check("a later handshake on the same server")
}
