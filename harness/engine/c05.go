package engine

import (
	"strings"

	"github.com/zishang520/engine.io/v2/config"
	"github.com/zishang520/engine.io/v2/transports"
	"github.com/zishang520/engine.io/v2/types"
	verif "github.com/zishang520/engine.io/v2/internal/zzverif"
)

// reference of the admission precedence, written from the property statement.
// Returns the documented code (-1 = admitted).
func refAdmit(enabled bool, originBad bool, sidGiven, sidKnown, sameTransport, upgrade bool, methodGET bool, isWebsocket bool, hookRefuses bool) int {
	if !enabled {
		return 0
	}
	if originBad {
		return 3
	}
	if sidGiven {
		if !sidKnown {
			return 1
		}
		if !upgrade && !sameTransport {
			return 3
		}
		return -1
	}
	if !methodGET {
		return 2
	}
	if isWebsocket && !upgrade {
		return 3
	}
	if hookRefuses {
		return 4
	}
	return -1
}

func refBadOrigin(o string) bool {
	for i := 0; i < len(o); i++ {
		b := o[i]
		if (b < ' ' || b == 0x7f) && b != ' ' && b != '\t' {
			return true
		}
	}
	return false
}

var errHook = &simpleErr{"nope, says the hook"}

// c05Verify: the Verify decision table with symbolic transport name, Origin bytes, method,
// sid (absent / unknown / of a polling session / of a websocket session), upgrade flag,
// hook outcome and enabled-transport set.
func c05Verify(wide bool, repeated bool) {
	opts := config.DefaultServerOptions()
	tset := types.NewSet[string](transports.POLLING)
	enP, enW := true, false
	cfgN := 2
	if wide {
		cfgN = 3
	}
	switch verif.Choose(cfgN) {
	case 0:
		tset.Add(transports.WEBSOCKET)
		enW = true
	case 2:
		tset = types.NewSet[string](transports.WEBSOCKET)
		enP, enW = false, true
	}
	opts.SetTransports(tset)
	hook := verif.Choose(3) // none, allows, refuses
	hookCalls := 0
	if hook > 0 {
		opts.SetAllowRequest(func(*types.HttpContext) error {
			hookCalls++
			if hook == 2 {
				return errHook
			}
			return nil
		})
	}
	ps := newProtoServer(opts)
	// two existing sessions, one per transport
	c1, _ := newCtx("GET", "/engine.io/")
	c1.Query().Set("EIO", "4")
	sp := NewSocket("sidP", ps, newFakeTransport(transports.POLLING, c1), c1, 4)
	sw := NewSocket("sidW", ps, newFakeTransport(transports.WEBSOCKET, c1), c1, 4)
	ps.Clients().Store("sidP", sp)
	ps.Clients().Store("sidW", sw)

	var method, transport, origin string
	if wide {
		method = verif.StringN([4]int{3, 4, 0, 5}[verif.Choose(4)])
		transport = verif.StringN([5]int{7, 9, 12, 0, 3}[verif.Choose(5)])
		origin = verif.String(2)
	} else {
		method = verif.StringN([2]int{3, 4}[verif.Choose(2)])
		transport = verif.StringN([3]int{7, 9, 3}[verif.Choose(3)])
		origin = verif.String(1)
	}
	upgrade := verif.Bool()
	ctx, w := newCtx(method, "/engine.io/")
	ctx.Query().Set("transport", transport)
	if len(origin) > 0 {
		ctx.Headers().Set("Origin", origin)
	}
	sidKind := verif.Choose(4) // absent, unknown, polling session, websocket session
	switch sidKind {
	case 1:
		ctx.Query().Set("sid", "nosuch")
	case 2:
		ctx.Query().Set("sid", "sidP")
	case 3:
		ctx.Query().Set("sid", "sidW")
	}
	if repeated { // repeated query values: the last one wins
		ctx.Query().Replace(map[string][]string{"transport": {"bogus", transport}, "sid": append([]string{"sidP"}, ctx.Gets("sid")...)})
		if sidKind == 0 {
			ctx.Query().Remove("sid")
		}
	}

	cm, errCtx := ps.Verify(ctx, upgrade)

	isP, isW := transport == transports.POLLING, transport == transports.WEBSOCKET
	enabled := (isP && enP) || (isW && enW)
	same := (sidKind == 2 && isP) || (sidKind == 3 && isW)
	up := strings.ToUpper(method)
	want := refAdmit(enabled, refBadOrigin(origin), sidKind != 0, sidKind >= 2, same, upgrade, up == "GET", isW, hook == 2)
	if want < 0 {
		verif.Assert(cm == nil && errCtx == nil, "admitted request is not rejected")
	} else {
		verif.Assert(cm != nil, "rejected request has an error")
		if cm != nil {
			verif.Assert(cm.Code == want, "documented error code by precedence")
			verif.Assert(cm.Message == refMessage(want), "documented error message")
			if want == 4 {
				m, _ := errCtx["message"].(string)
				verif.Assert(m == errHook.Error(), "hook's own text is carried")
			}
		}
	}
	if want >= 0 && want != 4 {
		verif.Assert(hookCalls == 0, "hook not consulted for requests rejected earlier")
	}
	if want == 4 || (want < 0 && sidKind == 0 && hook > 0) {
		verif.Assert(hookCalls == 1, "hook consulted exactly once for handshakes that reach it")
	}
	verif.Assert(w.writeCalls == 0, "Verify itself writes nothing")
	verif.Assert(ps.ClientsCount() == 0 && ps.Clients().Len() == 2, "registry untouched by Verify")
	verif.Assert(sp.ReadyState() == "open" && sw.ReadyState() == "open", "existing sessions undisturbed")
	verif.Observe("code", want)
}

func VerifH_C05_verify()           { c05Verify(true, false) }
func VerifH_C05_verify_repeated()  { c05Verify(false, true) }
func VerifH_C05_verify_narrow()     { c05Verify(false, false) }

func refMessage(code int) string {
	switch code {
	case 0:
		return "Transport unknown"
	case 1:
		return "Session ID unknown"
	case 2:
		return "Bad handshake method"
	case 3:
		return "Bad request"
	case 4:
		return "Forbidden"
	case 5:
		return "Unsupported protocol version"
	}
	return "?"
}
