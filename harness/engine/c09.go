package engine

import (
	"strings"

	"github.com/zishang520/engine.io-go-parser/packet"
	"github.com/zishang520/engine.io/v2/transports"
	"github.com/zishang520/engine.io/v2/config"
	"github.com/zishang520/engine.io/v2/types"
	verif "github.com/zishang520/engine.io/v2/internal/zzverif"
)

// VerifH_C09_hostile_packets: a client may open the upgrade transport with a different EIO
// value than its handshake, send heartbeats in either direction at any time (before any
// ping was ever scheduled, after an upgrade, ...), and any packet type in any state.  The
// worst outcome is that ITS session closes; no panic; a second session keeps working.
func VerifH_C09_hostile_packets() {
	verif.RunTimed(func() {
		sessEIO := [2]string{"4", "3"}[verif.Choose(2)]
		w := newSockWorld(transports.POLLING, sessEIO)
		// an innocent bystander on the same server
		bctx, _ := newCtx("GET", "/engine.io/")
		bctx.Query().Set("transport", transports.WEBSOCKET)
		bctx.Query().Set("EIO", "4")
		_, btr := w.ps.Handshake(transports.WEBSOCKET, bctx)
		verif.Assume(btr != nil)
		bft := w.ps.made[len(w.ps.made)-1]
		bsock, _ := w.ps.Clients().Load(bft.Sid())
		bft.complete()
		var bmsgs []any
		bsock.On("message", func(a ...any) { bmsgs = append(bmsgs, a[0]) })
		bclosed := 0
		bsock.On("close", func(...any) { bclosed++ })

		cur := w.ft
		if verif.Bool() {
			// upgrade through a candidate opened with a possibly different EIO value
			ctx, _ := newCtx("GET", "/engine.io/")
			ctx.Query().Set("transport", transports.WEBSOCKET)
			ctx.Query().Set("sid", w.sock.Id())
			ctx.Query().Set("EIO", [3]string{"4", "3", "x"}[verif.Choose(3)])
			cand := newFakeTransport(transports.WEBSOCKET, ctx)
			w.sock.MaybeUpgrade(cand)
			cand.OnPacket(&packet.Packet{Type: packet.PING, Data: strings.NewReader("probe")})
			cand.OnPacket(&packet.Packet{Type: packet.UPGRADE, Data: types.NewStringBufferString("")})
			cur = cand
		}
		types_ := [8]packet.Type{packet.PING, packet.PONG, packet.MESSAGE, packet.NOOP, packet.UPGRADE, packet.OPEN, packet.CLOSE, packet.ERROR}
		for step := 0; step < 2; step++ {
			t := types_[verif.Choose(8)]
			cur.OnPacket(&packet.Packet{Type: t, Data: types.NewStringBufferString("probe")})
			cur.complete()
		}
		st := w.sock.ReadyState()
		verif.Assert(st == "open" || st == "closed" || st == "closing", "the offending session is at worst closed")
		// every other session keeps exchanging messages undisturbed
		in := types.NewStringBufferString("hello")
		bft.OnPacket(&packet.Packet{Type: packet.MESSAGE, Data: in})
		verif.Assert(bclosed == 0 && bsock.ReadyState() == "open" && len(bmsgs) == 1 && bmsgs[0] == any(in), "another session is undisturbed")
		n := len(bft.flat())
		bsock.Send(types.NewStringBufferString("out"), nil, nil)
		verif.Assert(len(bft.flat()) == n+1, "and can still send")
	})
}

// VerifH_C09_heartbeat_races_close: a heartbeat packet from the client (pong on revision
// 4, ping on revision 3) is being handled when the same session is closed from elsewhere
// (peer gone, transport error, application close) at any yield point of the handler (its
// debug-log calls and the application's 'packet' listener): the handler must not crash,
// and the session closes exactly once.
func VerifH_C09_heartbeat_races_close() {
	verif.RunTimed(func() {
		proto := [2]int{4, 3}[verif.Choose(2)]
		w := newHbWorld(proto, 1000, 500)
		w.sock.On("packet", func(...any) { verif.Yield("packet listener") })
		cause := verif.Choose(3)
		verif.Event("the session is closed from elsewhere", func() {
			switch cause {
			case 0:
				w.ft.OnClose()
			case 1:
				w.sock.Close(true)
			case 2:
				w.ft.OnError("gone", nil)
			}
		})
		if proto == 4 && verif.Bool() {
			verif.SleepUntil(1000) // the server's ping is outstanding
		}
		verif.InjectBudget(1)
		if proto == 4 {
			w.deliver(packet.PONG)
		} else {
			w.deliver(packet.PING)
		}
		verif.InjectBudget(0)
		verif.Settle()
		verif.SleepUntil(verif.Now() + 5000)
		verif.Settle()
		verif.Assert(w.rec.count("close") <= 1, "at most one close event")
		if w.rec.count("close") == 1 {
			verif.Assert(w.sock.ReadyState() == "closed", "closed")
		}
	})
}

// VerifH_C09_session_closes_during_request: a request naming a live session is being
// handled when that session closes from elsewhere (its own close packet on another request,
// an aborted poll, a timeout) at any yield point of the handler: the handler does not crash;
// the request is either dispatched to the session's transport or answered 'Session ID unknown'.
func VerifH_C09_session_closes_during_request() { sessionClosesDuringRequest() }

// C11: the same race read as response discipline: the request gets exactly one response.
func VerifH_C11_session_closes_during_request() { sessionClosesDuringRequest() }

func sessionClosesDuringRequest() {
	opts := config.DefaultServerOptions()
	ps := newProtoServer(opts)
	c1, _ := newCtx("GET", "/engine.io/")
	c1.Query().Set("EIO", "4")
	tp := newFakeTransport(transports.POLLING, c1)
	sp := NewSocket("sidP", ps, tp, c1, 4)
	ps.Clients().Store("sidP", sp)
	sp.Once("close", func(...any) { ps.Clients().Delete("sidP") })
	tp.onRequest = func(c *types.HttpContext) { respond(nil, c) }
	cause := verif.Choose(3)
	verif.Event("the session closes from elsewhere", func() {
		switch cause {
		case 0:
			tp.OnClose()
		case 1:
			sp.Close(true)
		case 2:
			tp.OnError("gone", nil)
		}
	})
	method := [2]string{"GET", "POST"}[verif.Choose(2)]
	ctx, w := newCtx(method, "/engine.io/")
	ctx.Query().Set("transport", transports.POLLING)
	ctx.Query().Set("EIO", "4")
	ctx.Query().Set("sid", "sidP")
	verif.InjectBudget(1)
	ps.HandleRequest(ctx)
	verif.InjectBudget(0)
	verif.Assert(w.writeCalls == 1, "the request receives exactly one response (dispatched to the session's transport, or refused)")
	if w.writeCalls == 1 && len(w.status) == 1 && w.status[0] == 400 && len(w.bodies) == 1 {
		verif.Assert(verif.JSONInt(w.bodies[0], "code") == 1, "a request that lost its session is answered 'Session ID unknown'")
	}
}
