package engine

import (
	"time"

	"github.com/zishang520/engine.io-go-parser/packet"
	"github.com/zishang520/engine.io/v2/transports"
	"github.com/zishang520/engine.io/v2/types"
	verif "github.com/zishang520/engine.io/v2/internal/zzverif"
)

// VerifH_C12_graceful_close: Close(discard) at any position of a script of sends and
// write-cycle completions: everything accepted before a graceful Close reaches the
// transport before the transport is closed; exactly one close('forced close').
func VerifH_C12_graceful_close() {
	w := newSockWorld(transports.WEBSOCKET, [2]string{"4", "3"}[verif.Choose(2)])
	var accepted []*packet.Packet
	w.sock.On("packetCreate", func(a ...any) { accepted = append(accepted, a[0].(*packet.Packet)) })
	closeEvents := 0
	reason := ""
	w.sock.On("close", func(a ...any) { closeEvents++; reason, _ = a[0].(string) })
	doCloseAt := -1
	w.ft.onSend = func(f *fakeTransport, b []*packet.Packet) {
		verif.Assert(f.doClose == 0, "nothing is written after the transport was told to close")
	}
	discard := verif.Bool()
	closeStep := verif.Choose(4)
	steps := 4
	for step := 0; step < steps; step++ {
		if step == closeStep {
			before := len(accepted)
			w.sock.Close(discard)
			w.sock.Send(types.NewStringBufferString("late"), nil, nil)
			verif.Assert(len(accepted) == before, "Send after Close is discarded")
			continue
		}
		if verif.Bool() {
			w.sock.Send(types.NewStringBufferString("m"), nil, nil)
		} else {
			w.ft.complete()
		}
		if w.ft.doClose > 0 && doCloseAt < 0 {
			doCloseAt = step
		}
	}
	// the client keeps reading: remaining write cycles complete
	w.ft.complete()
	w.ft.complete()
	verif.Assert(closeEvents == 1 && reason == "forced close", "exactly one close event with reason 'forced close'")
	verif.Assert(w.sock.ReadyState() == "closed" && w.ft.doClose == 1, "session closed, transport closed once")
	if !discard {
		got := w.ft.flat()
		verif.Assert(len(got) == len(accepted), "every packet accepted before the graceful Close reached the transport")
		if len(got) == len(accepted) {
			for i := range got {
				verif.Assert(got[i] == accepted[i], "in order, unchanged")
			}
		}
	}
	verif.Assert(w.ps.Clients().Len() == 0 && w.ps.ClientsCount() == 0, "client table empty")
}

// VerifH_C12_server_close: closing the server closes every session (any mix of open,
// closing and already closed ones), each with exactly one close event, table empty.
func VerifH_C12_server_close() {
	w := newSockWorld(transports.WEBSOCKET, "4")
	ps := w.ps
	n := verif.Choose(3) + 1
	socks := []Socket{w.sock}
	fts := []*fakeTransport{w.ft}
	for i := 1; i < n; i++ {
		ctx, _ := newCtx("GET", "/engine.io/")
		tn := [2]string{transports.POLLING, transports.WEBSOCKET}[verif.Choose(2)]
		ctx.Query().Set("transport", tn)
		ctx.Query().Set("EIO", "4")
		_, tr := ps.Handshake(tn, ctx)
		verif.Assume(tr != nil)
		ft := ps.made[len(ps.made)-1]
		s, _ := ps.Clients().Load(ft.Sid())
		socks = append(socks, s)
		fts = append(fts, ft)
	}
	counts := make([]int, n)
	for i, s := range socks {
		i := i
		s.On("close", func(...any) { counts[i]++ })
	}
	// put the sessions into mixed states
	for i, s := range socks {
		switch verif.Choose(4) {
		case 1: // closing, waiting for buffered data to drain
			s.Send(types.NewStringBufferString("a"), nil, nil)
			s.Send(types.NewStringBufferString("b"), nil, nil)
			s.Close(false)
		case 2: // already closed by the peer
			fts[i].OnClose()
		case 3: // buffered data, still open
			s.Send(types.NewStringBufferString("a"), nil, nil)
			s.Send(types.NewStringBufferString("b"), nil, nil)
		}
	}
	// the HTTP server's close event, as registered by Attach, closes the engine
	hs := types.NewWebServer(nil)
	ps.Attach(hs, nil)
	hs.Emit("close")
	verif.Settle()
	for i := range socks {
		verif.Assert(counts[i] == 1, "every session gets exactly one close event")
		verif.Assert(socks[i].ReadyState() == "closed", "every session is closed")
	}
	verif.Assert(ps.Clients().Len() == 0 && ps.ClientsCount() == 0, "client table empty after server close")
}

// VerifH_C12_silent_client: a graceful Close with data still buffered and a client that
// never reads again: the session still closes within bounded time (the next heartbeat
// deadline) and leaves the table.
func VerifH_C12_silent_client() {
	verif.RunTimed(func() {
		I, T := verif.Int64(), verif.Int64()
		verif.Assume(I >= 1 && I <= 1<<30 && T >= 1 && T <= 1<<30)
		proto := [2]int{4, 3}[verif.Choose(2)]
		w := newHbWorld(proto, time.Duration(I), time.Duration(T))
		w.ft.onSend = nil // the client stops reading: no write cycle completes any more
		w.sock.Send(types.NewStringBufferString("a"), nil, nil)
		w.sock.Send(types.NewStringBufferString("b"), nil, nil)
		t0 := verif.Now()
		w.sock.Close(false)
		verif.Assert(w.sock.ReadyState() == "closing", "closing while data is buffered")
		verif.SleepUntil(t0 + 2*(I+T))
		verif.Settle()
		verif.Assert(w.sock.ReadyState() == "closed", "the session closes by the next heartbeat deadline even if the client never reads again")
		verif.Assert(w.rec.count("close") == 1, "exactly one close event")
		verif.Assert(w.ps.Clients().Len() == 0 && w.ps.ClientsCount() == 0, "client table empty")
	})
}
