package engine

import (
	"context"
	"encoding/base64"
	"net/http"
	"runtime"
	"strings"

	"github.com/zishang520/engine.io-go-parser/packet"
	"github.com/zishang520/engine.io/v2/config"
	"github.com/zishang520/engine.io/v2/transports"
	"github.com/zishang520/engine.io/v2/types"
	verif "github.com/zishang520/engine.io/v2/internal/zzverif"
)

// pollClient drives a REAL polling session end to end: real server.HandleRequest, real
// polling transport, real v4 parser, real HttpContext over a recording ResponseWriter.
// Every request runs on its own goroutine, as under net/http (HandleRequest returns only
// when its response is written).
type pollClient struct {
	ps     *server
	sock   Socket
	sid    string
	reqs   []*pollExchange
	closes []string
}

type pollExchange struct {
	w      *fakeWriter
	ctx    *types.HttpContext
	method string
}

func newPollClient(opts *config.ServerOptions) *pollClient {
	c := &pollClient{ps: NewServer(opts).(*server)}
	c.ps.On("connection", func(a ...any) {
		c.sock = a[0].(Socket)
		c.sid = c.sock.Id()
		c.sock.On("close", func(r ...any) { s, _ := r[0].(string); c.closes = append(c.closes, s) })
	})
	return c
}

func (c *pollClient) request(method, body string) *pollExchange {
	q := "EIO=4&transport=polling"
	if c.sid != "" {
		q += "&sid=" + c.sid
	}
	w := &fakeWriter{}
	r := &http.Request{Method: method, URL: mustURL("/engine.io/?" + q), Header: http.Header{}, Proto: "HTTP/1.1", RemoteAddr: "192.0.2.1:1"}
	if method == "POST" {
		r.Header.Set("Content-Type", "text/plain;charset=UTF-8")
		r.ContentLength = int64(len(body))
		r.Body = &strBody{s: body}
	}
	ctx := types.NewHttpContext(w, r)
	verif.Cleanup(ctx.Flush)
	ex := &pollExchange{w: w, ctx: ctx, method: method}
	c.reqs = append(c.reqs, ex)
	go c.ps.HandleRequest(ctx)
	verif.Settle()
	return ex
}

type strBody struct {
	s   string
	pos int
}

func (b *strBody) Read(p []byte) (int, error) {
	if b.pos >= len(b.s) {
		return 0, errEOF
	}
	n := copy(p, b.s[b.pos:])
	b.pos += n
	return n, nil
}
func (b *strBody) Close() error { return nil }

var errEOF = ioEOF()

// poll issues a poll unless one is still pending (a conformant client has one poll at a time).
func (c *pollClient) poll() {
	for _, ex := range c.reqs {
		if ex.method == "GET" && !ex.answered() {
			return
		}
	}
	c.request("GET", "")
}

// packets of a poll response body (v4 payload: packets separated by 0x1e).
func (ex *pollExchange) packets() []string {
	if len(ex.w.bodies) == 0 {
		return nil
	}
	return strings.Split(string(ex.w.bodies[0]), "\x1e")
}

func (ex *pollExchange) answered() bool { return ex.w.writeCalls > 0 }

// everything the client has received so far, in order.
func (c *pollClient) received() []string {
	var out []string
	for _, ex := range c.reqs {
		if ex.method == "GET" && ex.answered() && len(ex.w.status) == 1 && ex.w.status[0] == 200 {
			out = append(out, ex.packets()...)
		}
	}
	return out
}

// VerifH_C12_polling_close: graceful and forced Close on a real polling session at every
// position relative to buffered sends and a pending or absent poll; then the client keeps
// polling, or never polls again.
func VerifH_C12_polling_close() {
	verif.RunTimed(func() {
		opts := config.DefaultServerOptions()
		c := newPollClient(opts)
		hs := c.request("GET", "")
		verif.Assert(hs.answered() && c.sock != nil, "handshake answered, session created")
		if c.sock == nil {
			return
		}
		pending := verif.Bool()
		if pending {
			c.poll()
		}
		nsend := verif.Choose(3)
		var want []string
		for i := 0; i < nsend; i++ {
			m := string(rune('a' + i))
			c.sock.Send(types.NewStringBufferString(m), nil, nil)
			want = append(want, "4"+m)
			verif.Settle()
		}
		discard := verif.Bool()
		c.sock.Close(discard)
		verif.Settle()
		c.sock.Send(types.NewStringBufferString("late"), nil, nil)
		keepPolling := verif.Bool()
		if keepPolling {
			for i := 0; i < 3 && len(c.closes) == 0; i++ {
				c.poll()
			}
		}
		// bounded time: the close timeout, or the heartbeat deadline with data still buffered
		verif.SleepUntil(verif.Now() + int64(c.ps.Opts().PingInterval()+c.ps.Opts().PingTimeout()) + int64(31e9))
		verif.Settle()
		verif.Assert(len(c.closes) == 1, "the session closes exactly once, within bounded time")
		if len(c.closes) == 1 && (keepPolling || nsend == 0 || pending) {
			verif.Assert(c.closes[0] == "forced close" || (!keepPolling && c.closes[0] == "ping timeout"), "with reason 'forced close' (the heartbeat deadline may win only when the client is gone)")
		}
		got := c.received()
		for _, p := range got {
			verif.Assert(p != "4late", "a message sent after Close is never delivered")
		}
		if !discard && keepPolling {
			// every message accepted before the graceful Close arrives, in order, before the close packet
			k := 0
			closeAt := -1
			for i, p := range got {
				if p == "1" && closeAt < 0 {
					closeAt = i
				}
				if k < len(want) && p == want[k] {
					verif.Assert(closeAt < 0, "buffered data is delivered before the close packet")
					k++
				}
			}
			verif.Assert(k == len(want), "every message accepted before a graceful Close is delivered to a client that keeps polling")
		}
		for _, ex := range c.reqs {
			verif.Assert(ex.w.writeCalls <= 1, "never two responses")
			verif.Assert(ex.answered(), "every request is answered once the session has closed (a pending poll is released)")
		}
		verif.Assert(c.ps.Clients().Len() == 0 && c.ps.ClientsCount() == 0, "client table empty")
	})
}

// VerifH_C01_polling_session: on a real polling session every script of 4 steps over
// {send text, send binary, client polls}, followed by two more polls: the client has
// received exactly the sent messages, once each, in call order, text as "4"+text and
// binary as base64 ("b"+...), as the v4 payload format prescribes.
func VerifH_C01_polling_session() {
	c := newPollClient(config.DefaultServerOptions())
	c.request("GET", "")
	if c.sock == nil {
		return
	}
	var want []string
	for step := 0; step < 4; step++ {
		switch verif.Choose(3) {
		case 0:
			m := string(rune('a' + step))
			c.sock.Send(types.NewStringBufferString(m), nil, nil)
			want = append(want, "4"+m)
		case 1:
			raw := []byte{byte(step), 0xff, 0x1e}
			c.sock.Send(types.NewBytesBuffer(raw), nil, nil)
			want = append(want, "b"+base64.StdEncoding.EncodeToString(raw))
		case 2:
			c.poll()
		}
		verif.Settle()
		// at every moment what the client has is a prefix of what was sent
		got := msgsOnly(c.received())
		verif.Assert(len(got) <= len(want), "nothing is received that was not sent")
		for i := range got {
			if i < len(want) {
				verif.Assert(got[i] == want[i], "received messages are a prefix of the sent ones")
			}
		}
	}
	c.poll()
	c.poll()
	got := msgsOnly(c.received())
	verif.Assert(len(got) == len(want), "a client that keeps polling eventually receives every message exactly once")
	verif.Assert(c.sock.ReadyState() == "open" && len(c.closes) == 0, "the session stays open")
}

// msgsOnly drops the open packet, noops and pings from a received packet list.
func msgsOnly(pk []string) []string {
	var out []string
	for _, p := range pk {
		if len(p) > 0 && (p[0] == '4' || p[0] == 'b') {
			out = append(out, p)
		}
	}
	return out
}

// VerifH_C12_close_from_send_callback: send-then-close from inside the send callback (the
// callback runs on the transport's own writer goroutine) on a real polling session, graceful
// or forced: the close is carried out -- the client's next poll is answered with the close
// packet (or released), the session closes exactly once with 'forced close', nothing hangs.
func VerifH_C12_close_from_send_callback() { closeFromSendCallback() }

// C18: a send callback may call Close on the session without deadlocking it -- on the real
// polling transport, whose callbacks run on its writer goroutine.
func VerifH_C18_close_from_send_callback_polling() { closeFromSendCallback() }

func closeFromSendCallback() {
	// (not under virtual time: a writer goroutine stuck on a lock would stall the virtual clock
	// natively instead of failing the assertions below; no timer matters within this script)
	func() {
		c := newPollClient(config.DefaultServerOptions())
		c.request("GET", "")
		if c.sock == nil {
			return
		}
		pending := verif.Bool()
		if pending {
			c.poll()
		}
		discard := verif.Bool()
		ran := false
		c.sock.Send(types.NewStringBufferString("hello"), nil, func(transports.Transport) {
			ran = true
			c.sock.Close(discard)
		})
		verif.Settle()
		for i := 0; i < 3 && len(c.closes) == 0; i++ {
			c.poll()
		}
		verif.Settle()
		verif.Assert(ran, "the send callback ran once the message was handed to the client")
		got := msgsOnly(c.received())
		verif.Assert(len(got) == 1 && got[0] == "4hello", "the message sent before the close is delivered")
		verif.Assert(len(c.closes) == 1 && c.closes[0] == "forced close", "the close requested from the send callback is carried out: one close event, 'forced close'")
		for _, ex := range c.reqs {
			verif.Assert(ex.answered() && ex.w.writeCalls == 1, "every request of the session is answered exactly once")
		}
		verif.Assert(c.ps.Clients().Len() == 0 && c.ps.ClientsCount() == 0, "client table empty")
	}()
}

// VerifH_C03_slow_callbacks_no_close_cause: histories without any close cause on a real
// polling session: sends with slow send callbacks and slow flush / drain listeners (they
// take long enough for every other goroutine of the server -- request watchers, writers --
// to run), polls and data requests: the session stays open and emits no close event.
func VerifH_C03_slow_callbacks_no_close_cause() {
	verif.RunTimed(func() {
		c := newPollClient(config.DefaultServerOptions())
		c.request("GET", "")
		if c.sock == nil {
			return
		}
		slow := func(...any) { verif.TakeTime() }
		switch verif.Choose(3) {
		case 1:
			c.sock.On("drain", slow)
		case 2:
			c.sock.On("flush", slow)
		}
		for step := 0; step < 3; step++ {
			switch verif.Choose(3) {
			case 0:
				c.sock.Send(types.NewStringBufferString("m"), nil, func(transports.Transport) { verif.TakeTime() })
			case 1:
				c.poll()
			case 2:
				c.request("POST", "4in")
			}
			verif.Settle()
		}
		c.poll()
		verif.Settle()
		verif.Assert(len(c.closes) == 0 && c.sock.ReadyState() == "open", "without a close cause the session stays open and emits no close event")
		for _, ex := range c.reqs {
			verif.Assert(ex.w.writeCalls <= 1, "never two responses")
		}
	})
}

// VerifH_C17_headers_for_every_response: a real polling session (cookie configured) over a
// script of polls, data requests, a client close packet or a server-side close: the server's
// 'headers' event fires once for every HTTP response of the session, including the responses
// written while or after the session closes; 'initial_headers' fires once; only the handshake
// response carries Set-Cookie.
func VerifH_C17_headers_for_every_response() {
	verif.RunTimed(func() {
		opts := config.DefaultServerOptions()
		opts.SetCookie(&http.Cookie{Name: "sess", Path: "/p"})
		c := newPollClient(opts)
		rec := &evRec{}
		rec.listen(c.ps, "initial_headers", "headers")
		c.request("GET", "")
		if c.sock == nil {
			return
		}
		for step := 0; step < 3; step++ {
			switch verif.Choose(4) {
			case 0:
				c.poll()
			case 1:
				c.request("POST", "4hello")
			case 2:
				c.request("POST", "1") // the client's close packet
			case 3:
				c.sock.Close(false)
			}
			verif.Settle()
		}
		c.poll()
		verif.Settle()
		answered := 0
		for i, ex := range c.reqs {
			if ex.answered() && len(ex.w.status) == 1 && ex.w.status[0] == 200 {
				answered++
				if i > 0 {
					verif.Assert(ex.w.hdr.Get("Set-Cookie") == "", "only the handshake response carries Set-Cookie")
				}
			}
		}
		verif.Assert(strings.HasPrefix(c.reqs[0].w.hdr.Get("Set-Cookie"), "sess="+c.sid), "the handshake response carries the session cookie")
		verif.Assert(rec.count("initial_headers") == 1, "initial_headers fires once per session")
		verif.Assert(rec.count("headers") == answered, "headers fires once for every response of the session, also for those written while it closes")
	})
}

// VerifH_C12_buffered_data_then_close_any_writer_order: a polling session with data buffered
// and no poll pending is closed gracefully; the client's next poll arrives.  Whatever order
// the transport's writer goroutines are scheduled in (a newly started goroutine may run
// before its creator continues), the buffered data reaches the client before the close
// packet and the session closes once with 'forced close'.
func VerifH_C12_buffered_data_then_close_any_writer_order() {
	if !verif.Symbolic() {
		runtime.GOMAXPROCS(1) // natively: newest goroutine first is the scheduler's habit on one P
	}
	verif.RunTimed(func() {
		c := newPollClient(config.DefaultServerOptions())
		c.request("GET", "")
		if c.sock == nil {
			return
		}
		c.sock.Send(types.NewStringBufferString("buffered"), nil, nil)
		c.sock.Close(false)
		verif.Settle()
		verif.SpawnBudget(2)
		c.poll()
		verif.SpawnBudget(0)
		verif.Settle()
		for i := 0; i < 2 && len(c.closes) == 0; i++ {
			c.poll()
		}
		verif.Settle()
		got := c.received()
		data, closeAt := -1, -1
		for i, p := range got {
			if p == "4buffered" && data < 0 {
				data = i
			}
			if p == "1" && closeAt < 0 {
				closeAt = i
			}
		}
		verif.Assert(data >= 0, "the data buffered before the graceful close reaches the client")
		verif.Assert(closeAt < 0 || data < closeAt, "before the close packet")
		verif.Assert(len(c.closes) == 1 && c.closes[0] == "forced close", "the session closes once, with 'forced close'")
	})
}

// VerifH_C01_send_races_upgrade_check: a real polling session with a poll pending is probed
// by an upgrade candidate (which starts the server's 100 ms "release the poll" tick).  The
// application sends while that tick fires in the middle of the hand-off (a slow 'flush'
// listener), so the tick's noop takes the pending poll first; then the upgrade completes and
// the application sends again.  What the client has received (polling responses, then the
// new transport) is always a prefix of what was sent, and everything if the session is
// still open -- a message may only be lost together with the session.
func VerifH_C01_send_races_upgrade_check() {
	verif.RunTimed(func() {
		c := newPollClient(config.DefaultServerOptions())
		c.request("GET", "")
		if c.sock == nil {
			return
		}
		c.poll() // a poll is pending
		ctx, _ := newCtx("GET", "/engine.io/")
		ctx.Query().Set("transport", transports.WEBSOCKET)
		ctx.Query().Set("EIO", "4")
		ctx.Query().Set("sid", c.sid)
		cand := newFakeTransport(transports.WEBSOCKET, ctx)
		c.sock.MaybeUpgrade(cand)
		cand.OnPacket(probePing())
		cand.complete()
		slow := verif.Bool()
		fired := false
		c.sock.On("flush", func(...any) {
			if slow && !fired {
				fired = true
				verif.SleepUntil(verif.Now() + 100e6) // the hand-off takes long enough for the tick to fire
			}
		})
		c.sock.Send(types.NewStringBufferString("m1"), nil, nil)
		verif.Settle()
		c.poll()
		verif.Settle()
		cand.OnPacket(&packet.Packet{Type: packet.UPGRADE, Data: types.NewStringBufferString("")})
		verif.Settle()
		c.sock.Send(types.NewStringBufferString("m2"), nil, nil)
		verif.Settle()
		cand.complete()
		verif.Settle()
		var got []string
		got = append(got, msgsOnly(c.received())...)
		for _, p := range cand.flat() {
			if p.Type == packet.MESSAGE {
				got = append(got, "4"+string(readAllOf(p.Data)))
			}
		}
		want := []string{"4m1", "4m2"}
		verif.Assert(len(got) <= len(want), "nothing is received twice or unsent")
		for i := range got {
			if i < len(want) {
				verif.Assert(got[i] == want[i], "what the client has received is a prefix of what was sent")
			}
		}
		if c.sock.ReadyState() == "open" {
			verif.Assert(len(got) == len(want), "while the session stays open no accepted message is lost")
		}
	})
}

// VerifH_C09_aborted_poll_releases_handler: the client abandons a pending long poll (its
// request context is cancelled) with nothing queued for it: the handler serving that request
// returns (it is not left waiting for a response that will never be written), the session is
// closed for it, and the server keeps serving other clients.
func VerifH_C09_aborted_poll_releases_handler() {
	verif.RunTimed(func() {
		c := newPollClient(config.DefaultServerOptions())
		c.request("GET", "")
		if c.sock == nil {
			return
		}
		w := &fakeWriter{}
		cctx, cancel := context.WithCancel(context.Background())
		r := (&http.Request{Method: "GET", URL: mustURL("/engine.io/?EIO=4&transport=polling&sid=" + c.sid), Header: http.Header{}, Proto: "HTTP/1.1", RemoteAddr: "192.0.2.1:1"}).WithContext(cctx)
		hctx := types.NewHttpContext(w, r)
		verif.Cleanup(hctx.Flush)
		returned := false
		go func() {
			c.ps.HandleRequest(hctx)
			returned = true
		}()
		verif.Settle()
		verif.Assert(!returned && w.writeCalls == 0, "the poll is pending")
		cancel() // the client goes away
		verif.Settle()
		verif.Settle()
		verif.Assert(returned, "the handler of an abandoned poll returns")
		verif.Assert(len(c.closes) == 1, "and the session is closed for it, once")
		c2 := newPollClient(config.DefaultServerOptions())
		c2.ps = c.ps
		c.ps.On("connection", func(a ...any) { c2.sock = a[0].(Socket); c2.sid = c2.sock.Id() })
		hs := c2.request("GET", "")
		verif.Assert(hs.answered(), "other clients are still served")
	})
}
