package engine

import (
	"io"

	"github.com/zishang520/engine.io-go-parser/packet"
	"github.com/zishang520/engine.io/v2/config"
	"github.com/zishang520/engine.io/v2/transports"
	"github.com/zishang520/engine.io/v2/types"
	verif "github.com/zishang520/engine.io/v2/internal/zzverif"
)

// sockWorld: a real session (created by the real Handshake) on a fake transport whose
// write cycle is completed by the harness.
type sockWorld struct {
	ps   *protoServer
	ft   *fakeTransport
	sock Socket
	log  []logEnt
	preFlush func() // runs in the first 'flush' listener, before the event is recorded
	preDrain func() // runs in the first 'drain' listener, before the event is recorded
}

type logEnt struct {
	kind  string // packetCreate | flush | sflush | send | drain | sdrain | cb | close | message
	batch []*packet.Packet
	pkt   *packet.Packet
	id    int
}

var sockWorldOpts func(*config.ServerOptions)

func newSockWorld(tn string, eio string) *sockWorld {
	opts := config.DefaultServerOptions()
	opts.SetAllowEIO3(true)
	if sockWorldOpts != nil {
		sockWorldOpts(opts)
	}
	ps := newProtoServer(opts)
	ctx, _ := newCtx("GET", "/engine.io/")
	ctx.Query().Set("transport", tn)
	ctx.Query().Set("EIO", eio)
	_, tr := ps.Handshake(tn, ctx)
	verif.Assume(tr != nil)
	w := &sockWorld{ps: ps, ft: ps.made[0]}
	w.sock, _ = ps.Clients().Load(w.ft.Sid())
	w.ft.complete() // the open packet has been delivered
	w.ft.sent = nil
	w.ft.onSend = func(_ *fakeTransport, b []*packet.Packet) { w.log = append(w.log, logEnt{kind: "send", batch: b}) }
	w.sock.On("packetCreate", func(a ...any) { w.log = append(w.log, logEnt{kind: "packetCreate", pkt: a[0].(*packet.Packet)}) })
	w.sock.On("flush", func(a ...any) {
		if w.preFlush != nil {
			w.preFlush()
		}
		w.log = append(w.log, logEnt{kind: "flush", batch: a[0].([]*packet.Packet)})
	})
	w.sock.On("drain", func(a ...any) {
		if w.preDrain != nil {
			w.preDrain()
		}
		w.log = append(w.log, logEnt{kind: "drain"})
	})
	w.sock.On("close", func(a ...any) { w.log = append(w.log, logEnt{kind: "close"}) })
	ps.On("flush", func(a ...any) { w.log = append(w.log, logEnt{kind: "sflush", batch: a[1].([]*packet.Packet)}) })
	ps.On("drain", func(a ...any) { w.log = append(w.log, logEnt{kind: "sdrain"}) })
	return w
}

func (w *sockWorld) send(id int, withCb bool) io.Reader {
	data := types.NewStringBufferString("m")
	var cb SendCallback
	if withCb {
		cb = func(transports.Transport) { w.log = append(w.log, logEnt{kind: "cb", id: id}) }
	}
	w.sock.Send(data, nil, cb)
	return data
}

func sameBatch(a, b []*packet.Packet) bool {
	if len(a) != len(b) {
		return false
	}
	for i := range a {
		if a[i] != b[i] {
			return false
		}
	}
	return true
}

type refSend struct {
	id    int
	data  io.Reader
	hasCb bool
}

// VerifH_C18_events: event discipline and callback alignment for every script of sends
// (with / without callback), write-cycle completions, spurious drains and a close.
func VerifH_C18_events() { c18Events(transports.WEBSOCKET, "4") }

// C01: the same step script read as FIFO hand-off: the transport receives exactly the
// accepted sends, in call order, once each, on a polling-like and a websocket-like
// transport and for both revisions.
func VerifH_C01_socket_fifo() {
	tn := [2]string{transports.POLLING, transports.WEBSOCKET}[verif.Choose(2)]
	c18Events(tn, [2]string{"4", "3"}[verif.Choose(2)])
}

func c18Events(tn, eio string) {
	w := newSockWorld(tn, eio)
	var pending []refSend   // accepted, not yet handed over
	var inflight [][]refSend // handed-over batches whose drain has not come
	writable := true
	closed := false
	nextID := 0
	steps := 4 + verif.Tier()
	for step := 0; step < steps; step++ {
		mark := len(w.log)
		switch verif.Choose(5) {
		case 0, 1: // Send
			withCb := verif.Bool()
			id := nextID
			nextID++
			data := w.send(id, withCb)
			lg := w.log[mark:]
			if closed {
				verif.Assert(len(lg) == 0, "Send after close is silently discarded")
				continue
			}
			verif.Assert(len(lg) >= 1 && lg[0].kind == "packetCreate" && lg[0].pkt.Data == data && lg[0].pkt.Type == packet.MESSAGE, "packetCreate fires once for the accepted Send, first")
			pending = append(pending, refSend{id, data, withCb})
			if writable {
				c18ExpectHandoff(w, lg[1:], pending)
				inflight = append(inflight, pending)
				pending = nil
				writable = false
			} else {
				verif.Assert(len(lg) == 1, "not writable: the packet is only buffered")
			}
		case 2: // the transport finishes its write cycle: drain, writable, ready
			w.ft.complete()
			lg := w.log[mark:]
			if closed {
				verif.Assert(len(lg) == 0, "silence after close")
				continue
			}
			k := 0
			if len(inflight) > 0 {
				for _, s := range inflight[0] {
					if s.hasCb {
						verif.Assert(k < len(lg) && lg[k].kind == "cb" && lg[k].id == s.id, "callbacks of the drained batch run once, in send order")
						k++
					}
				}
				inflight = inflight[1:]
			}
			writable = true
			if len(pending) > 0 {
				c18ExpectHandoff(w, lg[k:], pending)
				inflight = append(inflight, pending)
				pending = nil
				writable = false
			} else {
				verif.Assert(len(lg) == k, "nothing else happens")
			}
		case 3: // a drain the application did not cause (noop/close packet written by the transport)
			w.ft.Emit("drain")
			lg := w.log[mark:]
			if closed {
				verif.Assert(len(lg) == 0, "silence after close")
				continue
			}
			k := 0
			if len(inflight) > 0 {
				for _, s := range inflight[0] {
					if s.hasCb {
						verif.Assert(k < len(lg) && lg[k].kind == "cb" && lg[k].id == s.id, "callbacks run once, in send order")
						k++
					}
				}
				inflight = inflight[1:]
			}
			verif.Assert(len(lg) == k, "a drain hands nothing over")
		case 4: // the peer goes away
			w.ft.OnClose()
			lg := w.log[mark:]
			if closed {
				verif.Assert(len(lg) == 0, "silence after close")
				continue
			}
			verif.Assert(len(lg) == 1 && lg[0].kind == "close", "exactly one close event; pending callbacks are dropped")
			closed = true
			pending, inflight = nil, nil
		}
	}
	// every callback ran at most once
	seen := map[int]int{}
	for _, e := range w.log {
		if e.kind == "cb" {
			seen[e.id]++
			verif.Assert(seen[e.id] == 1, "a send callback runs at most once")
		}
	}
}

// c18ExpectHandoff: lg must be exactly flush(batch), server flush(batch), send(batch), drain, server drain.
func c18ExpectHandoff(w *sockWorld, lg []logEnt, batch []refSend) {
	verif.Assert(len(lg) == 5, "one hand-off: flush, server flush, Send, drain, server drain")
	if len(lg) != 5 {
		return
	}
	verif.Assert(lg[0].kind == "flush" && lg[1].kind == "sflush" && lg[2].kind == "send" && lg[3].kind == "drain" && lg[4].kind == "sdrain", "order of the hand-off events")
	for _, e := range lg[:3] {
		verif.Assert(len(e.batch) == len(batch), "batch carries exactly the buffered packets")
		if len(e.batch) == len(batch) {
			for i := range batch {
				verif.Assert(e.batch[i].Data == batch[i].data && e.batch[i].Type == packet.MESSAGE, "batch packets in send order, unchanged")
			}
		}
	}
	verif.Assert(sameBatch(lg[0].batch, lg[2].batch) && sameBatch(lg[1].batch, lg[2].batch), "flush events carry exactly what the transport got")
}

// VerifH_C18_reentrant: listeners and callbacks that call Send or Close on the session
// must not deadlock it.
func VerifH_C18_reentrant() {
	w := newSockWorld(transports.WEBSOCKET, "4")
	where := verif.Choose(8)
	act := verif.Choose(3) // Send, Close(false), Close(true)
	fired := false
	do := func(...any) {
		if fired {
			return
		}
		fired = true
		switch act {
		case 0:
			w.sock.Send(types.NewStringBufferString("x"), nil, nil)
		case 1:
			w.sock.Close(false)
		case 2:
			w.sock.Close(true)
		}
	}
	var cb SendCallback
	switch where {
	case 0:
		w.sock.On("packetCreate", do)
	case 1:
		w.sock.On("flush", do)
	case 2:
		w.sock.On("drain", do)
	case 3:
		w.ps.On("flush", do)
	case 4:
		w.ps.On("drain", do)
	case 5:
		cb = func(transports.Transport) { do() }
	case 6:
		w.sock.On("close", do)
	case 7:
		w.sock.On("message", do)
	}
	w.sock.Send(types.NewStringBufferString("a"), nil, cb)
	w.ft.complete()
	w.ft.OnPacket(&packet.Packet{Type: packet.MESSAGE, Data: types.NewStringBufferString("in")})
	w.ft.complete()
	w.ft.OnClose()
	verif.Assert(fired, "the listener ran")
	verif.Assert(w.sock.ReadyState() == "closed", "the script ran to its end")
}

// VerifH_C18_stray_drain: a transport drain that belongs to no application batch (noop /
// close packet written by the transport itself) arrives while the 'flush' listeners of a
// hand-off are running: the callbacks of that batch must not run before its flush event.
func VerifH_C18_stray_drain() {
	w := newSockWorld(transports.WEBSOCKET, "4")
	w.preFlush = func() { verif.Yield("flush listener") }
	verif.Event("stray drain", func() { w.ft.Emit("drain") })
	nsend := verif.Choose(2) + 1
	var batch []refSend
	// first send goes out at once (its own batch); make the transport busy so that the next sends are buffered
	w.send(100, false)
	for i := 0; i < nsend; i++ {
		data := w.send(i, verif.Bool())
		_ = data
	}
	_ = batch
	mark := len(w.log)
	verif.InjectBudget(1)
	w.ft.complete() // drain of the first batch, then the buffered sends are handed over
	verif.InjectBudget(0)
	lg := w.log[mark:]
	fl := -1
	for i, e := range lg {
		if e.kind == "flush" && fl < 0 {
			fl = i
		}
		if e.kind == "cb" {
			verif.Assert(fl >= 0 && i > fl, "a send callback never runs before the flush event of its batch")
		}
	}
	verif.Assert(fl >= 0, "the buffered packets were handed over")
}

// VerifH_C18_flush_drain_pairing: while the 'drain' listeners of one hand-off are still
// running, another goroutine sends and the transport becomes ready again: the events of
// the two hand-offs must not interleave (each flush is followed by its own drain).
func VerifH_C18_flush_drain_pairing() {
	w := newSockWorld(transports.WEBSOCKET, "4")
	w.preDrain = func() { verif.Yield("drain listener") }
	verif.Event("another goroutine sends and the transport is ready again", func() {
		w.sock.Send(types.NewStringBufferString("b"), nil, nil)
		w.ft.complete()
	})
	verif.InjectBudget(1)
	w.sock.Send(types.NewStringBufferString("a"), nil, nil)
	verif.InjectBudget(0)
	w.ft.complete()
	w.ft.complete()
	last := ""
	for _, e := range w.log {
		if e.kind == "flush" || e.kind == "drain" {
			verif.Assert(e.kind != last, "each flush event is followed by its own drain event before the next hand-off is announced")
			last = e.kind
		}
	}
	n := 0
	for _, p := range w.ft.flat() {
		if p.Type == packet.MESSAGE {
			n++
		}
	}
	verif.Assert(n >= 1, "the first message was handed over")
}

// VerifH_C01_concurrent_send: a second goroutine sends on the same session while the first
// goroutine's send is anywhere inside its hand-off (debug-log yield points, and the
// packetCreate / flush / drain listeners): every accepted message reaches the transport
// exactly once, and each sender's own messages stay in its call order.
func VerifH_C01_concurrent_send() {
	tn := [2]string{transports.POLLING, transports.WEBSOCKET}[verif.Choose(2)]
	w := newSockWorld(tn, "4")
	w.preFlush = func() { verif.Yield("flush listener") }
	w.preDrain = func() { verif.Yield("drain listener") }
	w.sock.On("packetCreate", func(...any) { verif.Yield("packetCreate listener") })
	var m2 io.Reader
	verif.Event("another goroutine sends on the same session", func() {
		m2 = types.NewStringBufferString("m2")
		go w.sock.Send(m2, nil, nil)
		verif.Settle() // it runs until it blocks or finishes
	})
	if verif.Bool() {
		w.send(0, false) // the transport is busy with an earlier batch
	}
	verif.InjectBudget(1)
	m1 := w.send(1, false)
	verif.InjectBudget(0)
	verif.Settle()
	w.ft.complete()
	verif.Settle()
	m3 := w.send(3, false)
	for i := 0; i < 3; i++ {
		w.ft.complete()
		verif.Settle()
	}
	n1, n2, n3, i1, i3 := 0, 0, 0, -1, -1
	for i, p := range w.ft.flat() {
		switch p.Data {
		case m1:
			n1++
			i1 = i
		case m3:
			n3++
			i3 = i
		default:
			if m2 != nil && p.Data == m2 {
				n2++
			}
		}
	}
	verif.Assert(n1 == 1 && n3 == 1, "each message of the first sender reaches the transport exactly once")
	verif.Assert(i1 < i3, "in its call order")
	if m2 != nil {
		verif.Assert(n2 == 1, "the concurrent sender's message reaches the transport exactly once")
	}
	verif.Assert(w.sock.ReadyState() == "open", "the session stays open")
}

// VerifH_C18_callback_after_own_flush: listeners that send re-entrantly (from packetCreate,
// from a send callback, from a message listener) while the transport is writable or busy:
// a send callback never runs before the flush event of the batch that contains its own
// packet, and runs at most once.
func VerifH_C18_callback_after_own_flush() {
	w := newSockWorld(transports.WEBSOCKET, "4")
	datas := map[int]io.Reader{}
	where := verif.Choose(3)
	innerCb := verif.Bool()
	fired := true // armed just before the outer send
	inner := func(...any) {
		if fired {
			return
		}
		fired = true
		datas[2] = w.send(2, innerCb)
	}
	var outerCb SendCallback
	switch where {
	case 0:
		w.sock.On("packetCreate", inner)
	case 1:
		outerCb = func(transports.Transport) {
			w.log = append(w.log, logEnt{kind: "cb", id: 1})
			inner()
		}
	case 2:
		w.sock.On("message", inner)
	}
	if verif.Bool() {
		datas[0] = w.send(0, false) // busy transport
	}
	fired = false
	if where == 1 {
		d := types.NewStringBufferString("m")
		datas[1] = d
		w.sock.Send(d, nil, outerCb)
	} else {
		datas[1] = w.send(1, true)
	}
	for i := 0; i < 3; i++ {
		w.ft.complete()
		if i == 0 && where == 2 {
			w.ft.OnPacket(&packet.Packet{Type: packet.MESSAGE, Data: types.NewStringBufferString("in")})
		}
	}
	seen := map[int]int{}
	for i, e := range w.log {
		if e.kind != "cb" {
			continue
		}
		seen[e.id]++
		verif.Assert(seen[e.id] == 1, "a send callback runs at most once")
		own := false
		for _, f := range w.log[:i] {
			if f.kind == "flush" {
				for _, p := range f.batch {
					if p.Data == datas[e.id] {
						own = true
					}
				}
			}
		}
		verif.Assert(own, "a send callback runs only after the flush event of the batch containing its packet")
	}
	verif.Assert(seen[1] == 1, "the callback of a delivered packet runs")
}

// VerifH_C01_send_during_ready_flush: message m1 is buffered while the transport is busy;
// the transport finishes its write cycle and the hand-off of m1 it triggers is anywhere in
// its course (flush / drain listeners, debug-log yield points) when the application, on
// another goroutine, sends m2 -- after its Send(m1) had returned.  The transport receives
// m1 before m2, each exactly once.
func VerifH_C01_send_during_ready_flush() {
	tn := [2]string{transports.POLLING, transports.WEBSOCKET}[verif.Choose(2)]
	w := newSockWorld(tn, "4")
	w.preFlush = func() { verif.Yield("flush listener") }
	w.preDrain = func() { verif.Yield("drain listener") }
	var m2 io.Reader
	verif.Event("the application sends the next message on its own goroutine", func() {
		m2 = types.NewStringBufferString("m2")
		go w.sock.Send(m2, nil, nil)
		verif.Settle()
	})
	w.send(0, false)       // the transport is busy
	m1 := w.send(1, false) // buffered; Send has returned
	verif.InjectBudget(1)
	w.ft.complete() // write cycle done: ready -> hand-off of m1
	verif.InjectBudget(0)
	verif.Settle()
	for i := 0; i < 3; i++ {
		w.ft.complete()
		verif.Settle()
	}
	i1, i2, n1, n2 := -1, -1, 0, 0
	for i, p := range w.ft.flat() {
		if p.Data == m1 {
			i1 = i
			n1++
		}
		if m2 != nil && p.Data == m2 {
			i2 = i
			n2++
		}
	}
	verif.Assert(n1 == 1, "m1 reaches the transport exactly once")
	if m2 != nil {
		verif.Assert(n2 == 1, "m2 reaches the transport exactly once")
		verif.Assert(i1 < i2, "in the order the application sent them")
	}
}
