package transports

import (
	"github.com/zishang520/engine.io-go-parser/packet"
	"github.com/zishang520/engine.io/v2/types"
	verif "github.com/zishang520/engine.io/v2/internal/zzverif"
)

// newPolling builds the real polling transport for a handshake request of revision eio.
func newPolling(eio string) (*polling, *evRec) {
	hctx, _ := newCtx("GET", eio)
	p := NewPolling(hctx).(*polling)
	rec := &evRec{}
	rec.listen(p, "packet", "error", "close", "drain", "ready", "headers")
	return p, rec
}

// VerifH_C10_polling_body: any limit, any declared Content-Length (including -1 =
// unknown/chunked), real body length around the limit: nothing larger than the limit is
// ever delivered, the server stops reading after limit + one chunk, oversized bodies get 413.
func VerifH_C10_polling_body() {
	p, rec := newPolling("4")
	limit := verif.Int64()
	verif.Assume(limit >= 1 && limit <= 1<<40)
	p.SetMaxHttpBufferSize(limit)
	B := verif.Concretize(verif.Int(0, 6))
	body := make([]byte, B)
	for i := range body {
		body[i] = 'a'
	}
	if B > 0 {
		body[0] = '4' // one message packet
	}
	fb := &fakeBody{data: body, chunk: [2]int{0, 2}[verif.Choose(2)]}
	declared := verif.Int64()
	// a declared length (any value, also one that understates the real body, e.g. when a
	// front end replaced the body by a decompressing reader) or -1 = unknown
	verif.Assume(declared >= -1 && declared <= 1<<40)
	ctx, w := newCtx("POST", "4")
	ctx.Request().ContentLength = declared
	ctx.Request().Body = fb
	ctx.Request().Header.Set("Content-Type", "text/plain;charset=UTF-8")

	p.OnRequest(ctx)
	verif.Settle()

	delivered := rec.count("packet")
	if declared > limit {
		verif.Assert(delivered == 0 && len(w.status) == 1 && w.status[0] == 413, "a declared length above the limit is refused with 413")
		verif.Assert(fb.pos == 0, "without reading the body")
	} else if int64(B) > limit {
		verif.Assert(delivered == 0, "a body larger than the limit is never delivered")
		verif.Assert(len(w.status) == 1 && w.status[0] == 413, "oversized body refused with 413")
		verif.Assert(int64(fb.pos) <= limit+int64(2), "the server stops consuming an oversized body after at most limit plus a constant")
	} else {
		verif.Assert(len(w.status) == 1 && w.status[0] == 200, "a body within the limit is accepted")
		if B > 0 {
			verif.Assert(delivered == 1, "its packet is delivered once")
			if delivered == 1 {
				pk := rec.args[rec.index("packet", 0)][0].(*packet.Packet)
				verif.Assert(sameBytes(readAll(pk.Data), body[1:]), "and carries the whole body, however the body reader fragments it")
			}
		}
	}
	verif.Assert(w.writeCalls == 1, "exactly one response")
	verif.Assert(p.dataCtx.Load() == nil, "data-request slot released")
	_ = types.NULL
}

// VerifH_C02_polling_request_body: a polling data request whose body reader returns the
// body in short pieces (1 or 2 bytes per Read, or everything at once), with the length
// declared or not: every packet of the payload is delivered once, in order, intact.
func VerifH_C02_polling_request_body() {
	p, rec := newPolling("4")
	p.SetMaxHttpBufferSize(1 << 20)
	n := verif.Choose(3) + 1
	var body []byte
	var want [][]byte
	for i := 0; i < n; i++ {
		d := verif.BytesN(verif.Int(0, 2))
		for _, b := range d {
			verif.Assume(b != 0x1e && b < 0x80)
		}
		if i > 0 {
			body = append(body, 0x1e)
		}
		body = append(body, '4')
		body = append(body, d...)
		want = append(want, d)
	}
	fb := &fakeBody{data: body, chunk: [3]int{0, 1, 2}[verif.Choose(3)]}
	ctx, w := newCtx("POST", "4")
	if verif.Bool() {
		ctx.Request().ContentLength = int64(len(body))
	} else {
		ctx.Request().ContentLength = -1
	}
	ctx.Request().Body = fb
	ctx.Request().Header.Set("Content-Type", "text/plain;charset=UTF-8")
	p.OnRequest(ctx)
	verif.Settle()
	verif.Assert(len(w.status) == 1 && w.status[0] == 200, "the data request is acknowledged")
	verif.Assert(rec.count("packet") == n, "every packet of the payload is delivered once")
	if rec.count("packet") == n {
		for i := range want {
			pk := rec.args[rec.index("packet", i)][0].(*packet.Packet)
			verif.Assert(pk.Type == packet.MESSAGE && sameBytes(readAll(pk.Data), want[i]), "in order, bytes intact")
		}
	}
}

// VerifH_C10_polling_two_bodies: two data requests in a row on one polling session: the
// first is refused as too large (its length declared or only discovered while reading) or
// accepted, the second is acceptable: what is delivered for the second request is exactly
// its own body, so nothing refused earlier ever reaches the application and no delivered
// message exceeds the limit.
func VerifH_C10_polling_two_bodies() {
	p, rec := newPolling("4")
	limit := int64(verif.Int(2, 4))
	p.SetMaxHttpBufferSize(limit)
	mk := func(n int, fill byte) []byte {
		b := make([]byte, n)
		for i := range b {
			b[i] = fill
		}
		if n > 0 {
			b[0] = '4'
		}
		return b
	}
	b1 := mk(verif.Concretize(verif.Int(1, 6)), 'x')
	b2 := mk(verif.Concretize(verif.Int(1, int(limit))), 'y')
	post := func(body []byte, declared bool) *fakeWriter {
		ctx, w := newCtx("POST", "4")
		if declared {
			ctx.Request().ContentLength = int64(len(body))
		} else {
			ctx.Request().ContentLength = -1
		}
		ctx.Request().Body = &fakeBody{data: body, chunk: 2}
		ctx.Request().Header.Set("Content-Type", "text/plain;charset=UTF-8")
		p.OnRequest(ctx)
		verif.Settle()
		return w
	}
	w1 := post(b1, verif.Bool())
	first := rec.count("packet")
	if int64(len(b1)) > limit {
		verif.Assert(first == 0 && len(w1.status) == 1 && w1.status[0] == 413, "an oversized first body is refused with 413 and not delivered")
	} else {
		verif.Assert(first == 1 && len(w1.status) == 1 && w1.status[0] == 200, "an acceptable first body is delivered")
	}
	if p.ReadyState() != "open" {
		return
	}
	w2 := post(b2, verif.Bool())
	verif.Assert(len(w2.status) == 1 && w2.status[0] == 200, "the acceptable second body is accepted")
	verif.Assert(rec.count("packet") == first+1, "and delivers exactly one packet")
	if rec.count("packet") == first+1 {
		pk := rec.args[rec.index("packet", first)][0].(*packet.Packet)
		got := readAll(pk.Data)
		verif.Assert(int64(len(got))+1 <= limit, "no delivered message exceeds the limit")
		verif.Assert(sameBytes(got, b2[1:]), "the second request delivers exactly its own body")
	}
}

// VerifH_C02_polling_v3_binary_body: a revision-3 polling session, opened with or without
// the b64 flag (which only governs what the SERVER sends), receives a data request in the
// v3 binary framing (Content-Type: application/octet-stream) carrying a text and a binary
// message: both are delivered once, in order, bytes and kind intact.
func VerifH_C02_polling_v3_binary_body() {
	hctx, _ := newCtx("GET", "3")
	if verif.Bool() {
		hctx.Query().Set("b64", "1")
	}
	p := NewPolling(hctx).(*polling)
	rec := &evRec{}
	rec.listen(p, "packet", "error")
	p.SetMaxHttpBufferSize(1 << 20)
	t := verif.BytesN(verif.Int(0, 2))
	for _, b := range t {
		verif.Assume(b >= 0x20 && b < 0x7f) // printable text (the codec module's handling of control characters is outside the claim)
	}
	bin := verif.BytesN(verif.Int(0, 2))
	// <0=string|1=binary> <length digits> 0xff <packet>
	body := []byte{0x00, byte(1 + len(t)), 0xff, '4'}
	body = append(body, t...)
	body = append(body, 0x01, byte(1+len(bin)), 0xff, 0x04)
	body = append(body, bin...)
	ctx, w := newCtx("POST", "3")
	ctx.Request().Header.Set("Content-Type", "application/octet-stream")
	ctx.Headers().Set("Content-Type", "application/octet-stream")
	ctx.Request().ContentLength = int64(len(body))
	ctx.Request().Body = &fakeBody{data: body}
	p.OnRequest(ctx)
	verif.Settle()
	verif.Assert(len(w.status) == 1 && w.status[0] == 200, "the data request is acknowledged")
	verif.Assert(rec.count("packet") == 2 && rec.count("error") == 0, "both packets of the binary-framed payload are delivered")
	if rec.count("packet") == 2 {
		p0 := rec.args[rec.index("packet", 0)][0].(*packet.Packet)
		p1 := rec.args[rec.index("packet", 1)][0].(*packet.Packet)
		verif.Assert(p0.Type == packet.MESSAGE && sameBytes(readAll(p0.Data), t), "the text message first, intact")
		verif.Assert(p1.Type == packet.MESSAGE && sameBytes(readAll(p1.Data), bin), "then the binary message, intact")
		_, text0 := p0.Data.(*types.StringBuffer)
		_, text1 := p1.Data.(*types.StringBuffer)
		verif.Assert(text0 && !text1, "kinds preserved")
	}
}
