package transports

import (
	"github.com/zishang520/engine.io/v2/types"
	verif "github.com/zishang520/engine.io/v2/internal/zzverif"
)

// newPolling builds the real polling transport for a handshake request of revision eio.
func newPolling(eio string) (*polling, *evRec) {
	hctx, _ := newCtx("GET", eio)
	p := NewPolling(hctx).(*polling)
	rec := &evRec{}
	rec.listen(p, "packet", "error", "close", "drain", "ready", "headers")
	return p, rec
}

// VerifH_C10_polling_body: any limit, any declared Content-Length (including -1 =
// unknown/chunked), real body length around the limit: nothing larger than the limit is
// ever delivered, the server stops reading after limit + one chunk, oversized bodies get 413.
func VerifH_C10_polling_body() {
	p, rec := newPolling("4")
	limit := verif.Int64()
	verif.Assume(limit >= 1 && limit <= 1<<40)
	p.SetMaxHttpBufferSize(limit)
	B := verif.Concretize(verif.Int(0, 6))
	body := make([]byte, B)
	for i := range body {
		body[i] = 'a'
	}
	if B > 0 {
		body[0] = '4' // one message packet
	}
	fb := &fakeBody{data: body, chunk: [2]int{0, 2}[verif.Choose(2)]}
	declared := verif.Int64()
	// a declared length (any value, also one that understates the real body, e.g. when a
	// front end replaced the body by a decompressing reader) or -1 = unknown
	verif.Assume(declared >= -1 && declared <= 1<<40)
	ctx, w := newCtx("POST", "4")
	ctx.Request().ContentLength = declared
	ctx.Request().Body = fb
	ctx.Request().Header.Set("Content-Type", "text/plain;charset=UTF-8")

	p.OnRequest(ctx)
	verif.Settle()

	delivered := rec.count("packet")
	if declared > limit {
		verif.Assert(delivered == 0 && len(w.status) == 1 && w.status[0] == 413, "a declared length above the limit is refused with 413")
		verif.Assert(fb.pos == 0, "without reading the body")
	} else if int64(B) > limit {
		verif.Assert(delivered == 0, "a body larger than the limit is never delivered")
		verif.Assert(len(w.status) == 1 && w.status[0] == 413, "oversized body refused with 413")
		verif.Assert(int64(fb.pos) <= limit+int64(2), "the server stops consuming an oversized body after at most limit plus a constant")
	} else {
		verif.Assert(len(w.status) == 1 && w.status[0] == 200, "a body within the limit is accepted")
		if B > 0 {
			verif.Assert(delivered == 1, "its packet is delivered once")
		}
	}
	verif.Assert(w.writeCalls == 1, "exactly one response")
	verif.Assert(p.dataCtx.Load() == nil, "data-request slot released")
	_ = types.NULL
}
