package transports

import (
	"github.com/zishang520/engine.io-go-parser/packet"
	"github.com/zishang520/engine.io/v2/types"
	verif "github.com/zishang520/engine.io/v2/internal/zzverif"
)

type pollReq struct {
	ctx      *types.HttpContext
	w        *fakeWriter
	kind     string // poll | data | other
	accepted bool
	aborted  bool
	npackets int // data: packets in the payload
	seenAtOK int // data: packet events seen when the response was written
}

type pollWorld struct {
	p    *polling
	rec  *evRec
	reqs []*pollReq
}

func newPollWorld(eio string) *pollWorld {
	p, rec := newPolling(eio)
	p.SetMaxHttpBufferSize(1 << 20)
	// the session's reaction to a transport error is to close the transport
	// (socket.onError -> OnClose -> clearTransport -> transport.Close)
	p.On("error", func(...any) { p.Close() })
	return &pollWorld{p: p, rec: rec}
}

func (w *pollWorld) request(method, kind string, body string) *pollReq {
	ctx, fw := newCtx(method, "4")
	r := &pollReq{ctx: ctx, w: fw, kind: kind}
	if kind == "data" {
		ctx.Request().Header.Set("Content-Type", "text/plain;charset=UTF-8")
		ctx.Request().ContentLength = int64(len(body))
		ctx.Request().Body = &fakeBody{data: []byte(body)}
	}
	w.reqs = append(w.reqs, r)
	return r
}

func (w *pollWorld) pendingPoll() *pollReq {
	for _, r := range w.reqs {
		if r.kind == "poll" && r.accepted && !r.aborted && r.w.writeCalls == 0 {
			return r
		}
	}
	return nil
}

var c11Bodies = [3]string{"4m", "4a\x1e4b", "1"}
var c11Packets = [3]int{1, 2, 0}

// VerifH_C11_script: scripts of poll / data / other requests, aborts, server sends and
// transport close against the real polling transport (real v4 parser, real HttpContext).
func VerifH_C11_script() {
	verif.RunTimed(func() {
		w := newPollWorld("4")
		closed := false
		steps := 4 + verif.Tier()
		for step := 0; step < steps && !closed; step++ {
			errs := w.rec.count("error")
			switch verif.Choose(6) {
			case 0: // poll
				pend := w.pendingPoll()
				r := w.request("GET", "poll", "")
				r.accepted = pend == nil
				w.p.OnRequest(r.ctx)
				verif.Settle()
				if pend != nil {
					verif.Assert(len(r.w.status) == 1 && r.w.status[0] == 400, "an overlapping poll is answered 400")
					verif.Assert(w.rec.count("error") == errs+1, "and reported as a transport error")
				} else {
					verif.Assert(w.rec.count("error") == errs, "a poll that does not overlap is accepted")
				}
			case 1: // data
				b := verif.Choose(3)
				r := w.request("POST", "data", c11Bodies[b])
				r.accepted = true
				r.npackets = c11Packets[b]
				before := w.rec.count("packet")
				r.w.onWrite = func() { r.seenAtOK = w.rec.count("packet") - before }
				w.p.OnRequest(r.ctx)
				verif.Settle()
				verif.Assert(len(r.w.status) == 1 && r.w.status[0] == 200 && len(r.w.bodies) == 1 && string(r.w.bodies[0]) == "ok", "a data request is acknowledged with 'ok'")
				verif.Assert(r.seenAtOK == r.npackets, "'ok' is written only after every packet of the payload has been processed")
				if b == 2 {
					closed = true // the payload carried a close packet
				}
			case 2: // neither GET nor POST
				r := w.request("PUT", "other", "")
				w.p.OnRequest(r.ctx)
				verif.Settle()
				verif.Assert(len(r.w.status) == 1 && r.w.status[0] == 500, "other methods are answered 500")
			case 3: // the client goes away while its poll is pending
				if pend := w.pendingPoll(); pend != nil {
					pend.aborted = true
					pend.ctx.Flush()
					pend.ctx.Emit("close")
					verif.Settle()
					verif.Assert(w.rec.count("error") == errs+1, "an aborted poll is a transport error")
				}
			case 4: // the session sends a batch when the transport is writable
				if w.p.Writable() {
					pend := w.pendingPoll()
					w.p.Send([]*packet.Packet{{Type: packet.MESSAGE, Data: types.NewStringBufferString("out")}})
					verif.Settle()
					verif.Assert(pend != nil && pend.w.writeCalls == 1, "the batch is the response of the pending poll")
					verif.Assert(!w.p.Writable(), "not writable until the next poll")
				}
			case 5: // the session closes the transport
				w.p.Close(func() {})
				verif.Settle()
				closed = true
			}
			if w.rec.count("error") > errs {
				closed = true // a transport error closes the session (which closes the transport)
			}
		}
		// the session ends: a pending poll is answered at the latest now
		w.p.Close(func() {})
		verif.Settle()
		verif.SleepUntil(verif.Now() + int64(31e9))
		verif.Settle()
		for _, r := range w.reqs {
			verif.Assert(r.w.writeCalls <= 1 && len(r.w.status) <= 1, "never two responses for one request")
			if r.accepted && !r.aborted {
				verif.Assert(r.w.writeCalls == 1, "every accepted request receives exactly one response")
			}
		}
		verif.Assert(w.p.ReadyState() == "closed", "the transport ends closed")
		verif.Assert(w.rec.count("close") == 1, "exactly one close event")
	})
}

// VerifH_C11_overlapping_data: a second data request arriving at any yield point while
// the first one is still being processed is answered 400 and reported, and the first one
// still gets its single 'ok'.
func VerifH_C11_overlapping_data() {
	w := newPollWorld("4")
	first := w.request("POST", "data", c11Bodies[verif.Choose(2)])
	second := w.request("POST", "data", "4x")
	injected := false
	verif.Event("second POST", func() {
		injected = true
		w.p.OnRequest(second.ctx)
	})
	verif.InjectBudget(1)
	w.p.OnRequest(first.ctx)
	verif.InjectBudget(0)
	verif.Settle()
	verif.Assert(first.w.writeCalls == 1 && len(first.w.status) == 1, "the first data request gets exactly one response")
	if !injected {
		verif.Assert(first.w.status[0] == 200, "and it is 'ok' when nothing overlapped it")
	}
	if injected {
		verif.Assert(second.w.writeCalls == 1 && len(second.w.status) == 1 && second.w.status[0] == 400, "the overlapping data request is answered 400")
		verif.Assert(w.rec.count("error") >= 1, "and reported as a transport error")
		verif.Assert(w.rec.count("packet") <= 2, "its payload is not processed")
	}
}

// VerifH_C11_overlapping_poll_during_write: a duplicate poll arriving at any yield point
// while the response of the pending poll is still being produced (here: inside the
// compression step) overlaps it: 400 and a transport error, and the pending poll is
// answered exactly once.
func VerifH_C11_overlapping_poll_during_write() {
	w := newPollWorld("4")
	w.p.SetHttpCompression(&types.HttpCompression{Threshold: 0})
	first := w.request("GET", "poll", "")
	first.ctx.Request().Header.Set("Accept-Encoding", "gzip")
	first.ctx.Headers().Set("Accept-Encoding", "gzip")
	w.p.OnRequest(first.ctx)
	second := w.request("GET", "poll", "")
	injected := false
	verif.Event("duplicate poll", func() {
		injected = true
		w.p.OnRequest(second.ctx)
	})
	verif.InjectBudget(1)
	w.p.Send([]*packet.Packet{{Type: packet.MESSAGE, Data: types.NewStringBufferString("out"), Options: &packet.Options{Compress: true}}})
	verif.Settle()
	verif.InjectBudget(0)
	if injected && first.w.writeCalls == 0 {
		return // injected before the write began: covered by VerifH_C11_script
	}
	verif.Assert(first.w.writeCalls == 1, "the pending poll is answered exactly once")
	if injected {
		verif.Assert(len(second.w.status) == 1 && second.w.status[0] == 400, "a poll that overlaps a response still being produced is answered 400")
		verif.Assert(w.rec.count("error") >= 1, "and reported as a transport error")
	}
}

// VerifH_C11_close_aborts_data_request: the session is closed from another goroutine while
// a data request's payload is still being processed (the application's handler is running),
// over a slow connection: the close aborts the data request (429) and that response is
// still being written when the handler returns and the transport acknowledges the request.
// The data request must receive exactly one response.
func VerifH_C11_close_aborts_data_request() {
	w := newPollWorld("4")
	first := w.request("POST", "data", c11Bodies[verif.Choose(2)])
	w.p.On("packet", func(...any) { verif.Yield("application handler running") })
	injected := false
	verif.Event("the session is closed from another goroutine over a slow connection", func() {
		injected = true
		first.w.hold = make(chan struct{})
		go w.p.Close(func() {})
		verif.Settle() // the closing goroutine runs until the connection makes it wait
		hold := first.w.hold
		go func() {
			// the connection drains a little later, when everybody else is waiting
			verif.Settle()
			verif.Settle()
			close(hold)
		}()
	})
	verif.InjectBudget(1)
	w.p.OnRequest(first.ctx)
	verif.InjectBudget(0)
	verif.Settle()
	verif.Settle()
	verif.Assert(len(first.w.status) == 1 && first.w.writeCalls == 1, "a data request receives exactly one response, also when the close aborts it while it is being processed")
	if !injected {
		verif.Assert(first.w.status[0] == 200, "and it is 'ok' when nothing interfered")
	}
}

// VerifH_C11_compressed_poll_answered: an accepted poll whose answer goes through HTTP
// compression receives exactly one response, whatever spelling of the content codings its
// Accept-Encoding uses (codings are case-insensitive), and the buffered packets are not lost.
func VerifH_C11_compressed_poll_answered() {
	w := newPollWorld("4")
	w.p.SetHttpCompression(&types.HttpCompression{Threshold: 0})
	ae := c16Accept[verif.Choose(len(c16Accept))]
	r := w.request("GET", "poll", "")
	if ae != "" {
		r.ctx.Request().Header.Set("Accept-Encoding", ae)
		r.ctx.Headers().Set("Accept-Encoding", ae)
	}
	w.p.OnRequest(r.ctx)
	w.p.Send([]*packet.Packet{{Type: packet.MESSAGE, Data: types.NewStringBufferString("out"), Options: &packet.Options{Compress: verif.Bool()}}})
	verif.Settle()
	verif.Assert(r.w.writeCalls == 1 && len(r.w.status) == 1 && r.w.status[0] == 200, "the accepted poll receives exactly one response")
	if r.w.writeCalls == 1 {
		enc := r.w.hdr.Get("Content-Encoding")
		dec, ok := r.w.bodies[0], true
		if enc != "" {
			dec, ok = decodeBody(enc, r.w.bodies[0])
		}
		verif.Assert(ok && string(dec) == "4out", "and it carries the buffered packet")
	}
}

// VerifH_C11_binary_post_answered: a data request announcing a binary body
// (Content-Type: application/octet-stream) on a revision-4 session -- not a legal payload
// form there -- and on a revision-3 session (legal): the request receives exactly one
// response either way (the session may be failed for it, but the request is not left hanging).
func VerifH_C11_binary_post_answered() {
	eio := [2]string{"4", "3"}[verif.Choose(2)]
	p, rec := newPolling(eio)
	p.SetMaxHttpBufferSize(1 << 20)
	p.On("error", func(...any) { p.Close() }) // the session's reaction to a transport error
	ctx, w := newCtx("POST", eio)
	body := []byte{0x00, 0x02, 0xff, '4', 'a'} // v3 binary framing of the text packet "4a"
	ctx.Request().Header.Set("Content-Type", "application/octet-stream")
	ctx.Headers().Set("Content-Type", "application/octet-stream")
	ctx.Request().ContentLength = int64(len(body))
	ctx.Request().Body = &fakeBody{data: body}
	p.OnRequest(ctx)
	verif.Settle()
	verif.Assert(w.writeCalls == 1 && len(w.status) == 1, "the data request receives exactly one response")
	if eio == "3" {
		verif.Assert(len(w.status) == 1 && w.status[0] == 200 && rec.count("packet") == 1, "a revision-3 binary payload is accepted and delivered")
	} else {
		verif.Assert(rec.count("packet") == 0 && rec.count("error") == 1, "a binary payload on revision 4 is refused and reported")
		verif.Assert(len(w.status) == 1 && w.status[0] >= 400, "with an error status")
	}
}

// VerifH_C11_poll_during_close: the session closes the polling transport between two polls
// (the orderly close has to be buffered) and the client's next poll arrives at any yield
// point of that close; afterwards the client stays silent past the close timeout: the poll
// that was accepted is answered exactly once (it carries the close packet or is released),
// no request is left hanging, and the transport ends closed, once.
func VerifH_C11_poll_during_close() {
	verif.RunTimed(func() {
		w := newPollWorld("4")
		var r *pollReq
		verif.Event("the client's next poll arrives", func() {
			r = w.request("GET", "poll", "")
			r.accepted = true
			w.p.OnRequest(r.ctx)
		})
		verif.InjectBudget(1)
		w.p.Close(func() {})
		verif.InjectBudget(0)
		verif.Settle()
		if r == nil {
			r = w.request("GET", "poll", "")
			r.accepted = w.p.ReadyState() != "closed"
			w.p.OnRequest(r.ctx)
			verif.Settle()
		}
		verif.SleepUntil(verif.Now() + int64(31e9))
		verif.Settle()
		verif.Assert(r.w.writeCalls == 1 && len(r.w.status) == 1, "the poll receives exactly one response, at the latest when the close timeout expires")
		verif.Assert(w.p.ReadyState() == "closed" && w.rec.count("close") == 1, "the transport ends closed, exactly once")
	})
}
