package transports

import (
	"github.com/zishang520/engine.io-go-parser/packet"
	"github.com/zishang520/engine.io/v2/types"
	verif "github.com/zishang520/engine.io/v2/internal/zzverif"
)

// expected wire message for one packet on a revision-4 WebSocket/WebTransport transport.
type wantMsg struct {
	binary  bool
	payload []byte
}

// pickPacket builds one packet of a symbolic shape and the message a conformant client must receive for it.
func pickPacket(maxData int, allowPre bool) (*packet.Packet, wantMsg) {
	n := 3
	if allowPre {
		n = 5
	}
	switch verif.Choose(n) {
	case 0: // text message
		d := verif.BytesN(verif.Int(0, maxData))
		return &packet.Packet{Type: packet.MESSAGE, Data: types.NewStringBuffer(append([]byte(nil), d...)), Options: &packet.Options{Compress: verif.Bool()}},
			wantMsg{false, append([]byte{'4'}, d...)}
	case 1: // binary message
		d := verif.BytesN(verif.Int(0, maxData))
		return &packet.Packet{Type: packet.MESSAGE, Data: types.NewBytesBuffer(append([]byte(nil), d...))},
			wantMsg{true, append([]byte(nil), d...)}
	case 2: // a packet without data (noop / pong)
		return &packet.Packet{Type: packet.NOOP}, wantMsg{false, []byte{'6'}}
	case 3: // pre-encoded text frame
		d := verif.BytesN(verif.Int(0, maxData))
		pre := types.NewStringBuffer(append([]byte{'4'}, d...))
		return &packet.Packet{Type: packet.MESSAGE, Data: types.NewStringBuffer(append([]byte(nil), d...)), Options: &packet.Options{WsPreEncodedFrame: pre}},
			wantMsg{false, append([]byte{'4'}, d...)}
	default: // pre-encoded binary frame
		d := verif.BytesN(verif.Int(0, maxData))
		pre := types.NewBytesBuffer(append([]byte(nil), d...))
		return &packet.Packet{Type: packet.MESSAGE, Data: types.NewBytesBuffer(append([]byte(nil), d...)), Options: &packet.Options{WsPreEncodedFrame: pre}},
			wantMsg{true, append([]byte(nil), d...)}
	}
}

func sameBytes(a, b []byte) bool {
	if len(a) != len(b) {
		return false
	}
	for i := range a {
		if a[i] != b[i] {
			return false
		}
	}
	return true
}

// VerifH_C01_wt_batch: a batch of up to 3 packets of arbitrary shapes handed to the real
// WebTransport transport reaches the wire as exactly one frame per packet, in order, with
// the right text/binary kind and identical bytes; drain/writable/ready follow once.
func VerifH_C01_wt_batch() {
	st := newMemStream(nil, nil)
	w, _ := newWT(st, "4")
	rec := &evRec{}
	rec.listen(w, "drain", "ready", "error", "close")
	n := verif.Choose(3) + 1
	var batch []*packet.Packet
	var want []wantMsg
	for i := 0; i < n; i++ {
		p, m := pickPacket(2+12*verif.Tier(), true)
		batch = append(batch, p)
		want = append(want, m)
	}
	verif.Assert(w.Writable(), "transport starts writable")
	w.Send(batch)
	verif.Assert(!w.Writable(), "not writable while the batch is being written")
	verif.Settle()
	frames, ok := refDecodeWire(st.wire)
	verif.Assert(ok, "wire is a sequence of complete frames")
	verif.Assert(len(frames) == n, "exactly one frame per packet of the batch")
	if len(frames) == n {
		for i := range want {
			verif.Assert(frames[i].binary == want[i].binary, "text/binary kind preserved")
			verif.Assert(sameBytes(frames[i].payload, want[i].payload), "payload bytes identical, in order")
		}
	}
	verif.Assert(rec.count("drain") == 1 && rec.count("ready") == 1 && rec.count("error") == 0 && rec.count("close") == 0, "one drain and one ready after the batch")
	verif.Assert(rec.index("drain", 0) < rec.index("ready", 0), "drain before ready")
	verif.Assert(w.Writable(), "writable again")
}

// A stream write failure inside the batch: nothing after it is written, the failure
// is reported once, the write cycle still ends (drain/ready) so the session can notice.
func VerifH_C01_wt_batch_fault() {
	st := newMemStream(nil, nil)
	st.failAt = verif.Choose(3)
	w, ctx := newWT(st, "4")
	rec := &evRec{}
	rec.listen(ctx.WebTransport, "error", "close")
	var batch []*packet.Packet
	for i := 0; i < 3; i++ {
		p, _ := pickPacket(1, false)
		batch = append(batch, p)
	}
	w.Send(batch)
	verif.Settle()
	frames, ok := refDecodeWire(st.wire)
	verif.Assert(ok && len(frames) == st.failAt, "exactly the packets before the failing write are on the wire")
	verif.Assert(rec.count("error")+rec.count("close") >= 1, "the failure is reported on the connection")
}

// c01Sizes: one text message whose encoded length sits on a frame-length class boundary
// travels through the real transport, parser and Conn and is decoded from the wire intact.
func c01Sizes(sizes []int) {
	n := sizes[verif.Choose(len(sizes))]
	d := verif.BytesN(n - 1) // the parser prefixes the packet type
	st := newMemStream(nil, nil)
	w, _ := newWT(st, "4")
	w.Send([]*packet.Packet{{Type: packet.MESSAGE, Data: types.NewStringBuffer(append([]byte(nil), d...))}})
	verif.Settle()
	hl := 1
	if n >= 65536 {
		hl = 9
	} else if n >= 126 {
		hl = 3
	}
	verif.Assert(len(st.wire) == hl+n, "wire is exactly one header plus the payload")
	if len(st.wire) != hl+n {
		return
	}
	// the payload bytes are symbolic: compare the header with the reference header for n
	var want []byte
	switch hl {
	case 1:
		want = []byte{byte(n)}
	case 3:
		want = []byte{126, byte(n >> 8), byte(n)}
	default:
		want = []byte{127, 0, 0, 0, 0, byte(n >> 24), byte(n >> 16), byte(n >> 8), byte(n)}
	}
	verif.Assert(sameBytes(st.wire[:hl], want), "header is the reference header of a text frame of that length")
	frames := []frame{{false, st.wire[hl:]}}
	ok := true
	if ok && len(frames) == 1 {
		verif.Assert(!frames[0].binary && len(frames[0].payload) == n && frames[0].payload[0] == '4', "text frame of the encoded length")
		j := verif.Int(0, n-2)
		verif.Assert(frames[0].payload[1+j] == d[j], "payload bytes identical")
	}
}

func VerifH_C01_wt_boundary_sizes() { c01Sizes([]int{125, 126, 127, 65535, 65536, 65537}) }
