package transports

import (
	"bytes"
	"compress/flate"
	"compress/gzip"
	"compress/zlib"
	"io"
	"strconv"
	"strings"

	"github.com/andybalholm/brotli"
	"github.com/klauspost/compress/zstd"
	"github.com/zishang520/engine.io-go-parser/packet"
	"github.com/zishang520/engine.io/v2/types"
	verif "github.com/zishang520/engine.io/v2/internal/zzverif"
)

// decodeBody undoes the HTTP content coding named enc, as HTTP defines it
// (gzip = RFC 1952, deflate = zlib RFC 1950, br = brotli, zstd).  Under the symbolic
// executor the compressors are recording models that prefix their output with a codec
// tag, so decoding means checking the tag.
func decodeBody(enc string, body []byte) ([]byte, bool) {
	if verif.Symbolic() {
		tag := map[string]string{"gzip": "GZ:", "deflate": "ZL:", "br": "BR:", "zstd": "ZS:"}[enc]
		// modelled coders: "<tag>:" + payload + ";" (the trailer Close writes; a stream that was
		// only flushed has none and does not decode)
		if tag == "" || len(body) < 4 || string(body[:3]) != tag || body[len(body)-1] != ';' {
			return nil, false
		}
		return body[3 : len(body)-1], true
	}
	var r io.Reader
	var err error
	switch enc {
	case "gzip":
		r, err = gzip.NewReader(bytes.NewReader(body))
	case "deflate":
		r, err = zlib.NewReader(bytes.NewReader(body))
	case "br":
		r = brotli.NewReader(bytes.NewReader(body))
	case "zstd":
		var d *zstd.Decoder
		d, err = zstd.NewReader(bytes.NewReader(body))
		if d != nil {
			defer d.Close()
		}
		r = d
	default:
		return nil, false
	}
	if err != nil {
		return nil, false
	}
	out, err := io.ReadAll(r)
	return out, err == nil
}

var _ = flate.BestSpeed

// refAccepts: does the Accept-Encoding header value name coding c as a token (RFC 9110:
// comma separated codings, optional parameters after ';', case-insensitive, q=0 = refused)?
func refAccepts(h, c string) bool {
	for _, part := range strings.Split(h, ",") {
		part = strings.TrimSpace(part)
		name, params, _ := strings.Cut(part, ";")
		if strings.ToLower(strings.TrimSpace(name)) != c {
			continue
		}
		q := strings.TrimSpace(params)
		if q == "q=0" || q == "q=0.0" || q == "q=0.00" || q == "q=0.000" {
			return false
		}
		return true
	}
	return false
}

var c16Accept = []string{"", "gzip", "deflate", "br", "zstd", "gzip, deflate, br", "identity", "xgzipx", "br;q=1.0, gzip;q=0.5", "compress, zstd", "GZip", "gzip;q=0, BR"}

// VerifH_C16_dowrite: headers, length, coding decision and body of a poll response for
// text and binary payloads, any compression threshold, packet options and Accept-Encoding shapes.
func VerifH_C16_dowrite() {
	p, rec := newPolling("4")
	var threshold int
	hasComp := verif.Bool()
	if hasComp {
		threshold = int(verif.Int64())
		verif.Assume(threshold >= 0 && threshold <= 1<<20)
		p.SetHttpCompression(&types.HttpCompression{Threshold: threshold})
	}
	n := verif.Concretize(verif.Int(1, 3)) // an encoded payload is never empty
	payload := verif.BytesN(n)
	isText := verif.Bool()
	var data types.BufferInterface
	if isText {
		data = types.NewStringBuffer(append([]byte(nil), payload...))
	} else {
		data = types.NewBytesBuffer(append([]byte(nil), payload...))
	}
	var opts *packet.Options
	wantCompress := false
	switch verif.Choose(3) {
	case 1:
		opts = &packet.Options{Compress: false}
	case 2:
		opts = &packet.Options{Compress: true}
		wantCompress = true
	}
	ae := c16Accept[verif.Choose(len(c16Accept))]
	ctx, w := newCtx("GET", "4")
	if ae != "" {
		ctx.Request().Header.Set("Accept-Encoding", ae)
		ctx.Headers().Set("Accept-Encoding", ae)
	}
	p.OnRequest(ctx) // the pending poll
	cbErrs, cbCalls := 0, 0
	p.DoWrite(ctx, data, opts, func(err error) {
		cbCalls++
		if err != nil {
			cbErrs++
		}
	})
	verif.Settle()
	verif.Assert(w.writeCalls == 1 && len(w.status) == 1 && w.status[0] == 200, "exactly one 200 response")
	verif.Assert(cbCalls == 1 && cbErrs == 0, "completion callback once, without error")
	if w.writeCalls != 1 {
		return
	}
	body := w.bodies[0]
	h := w.hdr
	ct := h.Get("Content-Type")
	if isText {
		verif.Assert(ct == "text/plain; charset=UTF-8", "text body announced as text/plain; charset=UTF-8")
	} else {
		verif.Assert(ct == "application/octet-stream", "binary body announced as application/octet-stream")
	}
	verif.Assert(h.Get("Content-Length") == strconv.Itoa(len(body)), "Content-Length equals the bytes sent")
	enc := h.Get("Content-Encoding")
	if enc != "" {
		verif.Assert(hasComp && wantCompress && n >= threshold, "compression only when enabled, requested by the batch and at or above the threshold")
		verif.Assert(enc == "gzip" || enc == "deflate" || enc == "br" || enc == "zstd", "a known coding")
		verif.Assert(refAccepts(ae, enc), "only a coding the request's Accept-Encoding names")
		dec, ok := decodeBody(enc, body)
		verif.Assert(ok, "the body decodes under the announced coding as HTTP defines it")
		if ok {
			verif.Assert(sameBytes(dec, payload), "and decodes to the payload")
		}
	} else {
		verif.Assert(sameBytes(body, payload), "without Content-Encoding the body is the payload itself")
	}
	verif.Assert(rec.count("headers") == 1, "one headers event per response")
}

// VerifH_C16_poll_cycle: a flushed batch through the real Send path (real v4 parser):
// the body decodes, with a reference decoder of the v4 payload format, to exactly the
// packets of the cycle (plus the transport's own close packet when a close is pending).
func VerifH_C16_poll_cycle() {
	p, rec := newPolling("4")
	ctx, w := newCtx("GET", "4")
	p.OnRequest(ctx)
	n := verif.Choose(3) + 1
	var batch []*packet.Packet
	var want []string
	for i := 0; i < n; i++ {
		switch verif.Choose(3) {
		case 0:
			d := verif.BytesN(verif.Int(0, 2))
			for _, b := range d {
				verif.Assume(b != 0x1e)
			}
			batch = append(batch, &packet.Packet{Type: packet.MESSAGE, Data: types.NewStringBuffer(append([]byte(nil), d...))})
			want = append(want, "4"+string(d))
		case 1:
			batch = append(batch, &packet.Packet{Type: packet.NOOP})
			want = append(want, "6")
		case 2:
			batch = append(batch, &packet.Packet{Type: packet.PING})
			want = append(want, "2")
		}
	}
	p.Send(batch)
	verif.Settle()
	verif.Assert(w.writeCalls == 1 && len(w.status) == 1 && w.status[0] == 200, "the pending poll is answered once")
	if w.writeCalls != 1 {
		return
	}
	got := strings.Split(string(w.bodies[0]), "\x1e")
	verif.Assert(len(got) == len(want), "as many packets as handed to the transport")
	if len(got) == len(want) {
		for i := range want {
			verif.Assert(got[i] == want[i], "each packet intact, in order")
		}
	}
	verif.Assert(w.hdr.Get("Content-Type") == "text/plain; charset=UTF-8", "text payload")
	verif.Assert(rec.count("drain") == 1, "one drain after the write")
}

// VerifH_C16_jsonp: the JSONP wrapper for an arbitrary j parameter.
func VerifH_C16_jsonp() {
	hctx, _ := newCtx("GET", "3")
	j := verif.String(3)
	hctx.Query().Set("j", j)
	t := NewJSONP(hctx).(*jsonp)
	ctx, w := newCtx("GET", "3")
	ctx.Query().Set("j", j)
	t.OnRequest(ctx)
	payload := verif.BytesN(verif.Int(0, 3))
	cb := 0
	t.DoWrite(ctx, types.NewStringBuffer(append([]byte(nil), payload...)), nil, func(error) { cb++ })
	verif.Settle()
	verif.Assert(w.writeCalls == 1 && cb == 1, "one response")
	if w.writeCalls != 1 {
		return
	}
	body := string(w.bodies[0])
	digits := ""
	for i := 0; i < len(j); i++ {
		if j[i] >= '0' && j[i] <= '9' {
			digits += string(j[i])
		}
	}
	head := "___eio[" + digits + "]("
	verif.Assert(strings.HasPrefix(body, head), "head is ___eio[<exactly the decimal digits of j>](")
	verif.Assert(strings.HasSuffix(body, ");"), "foot is );")
	if strings.HasPrefix(body, head) && strings.HasSuffix(body, ");") && len(body) >= len(head)+2 {
		lit := body[len(head) : len(body)-2]
		verif.Assert(scriptSafe(lit), "the literal is safe to embed in a script (no raw U+2028/U+2029, <, >, &, control characters)")
		s, ok := verif.JSONText([]byte(lit))
		verif.Assert(ok, "the middle is one JSON string literal")
		if ok {
			verif.Assert(s == string(payload), "whose value is the payload")
		}
	}
	verif.Assert(w.hdr.Get("Content-Length") == strconv.Itoa(len(body)), "Content-Length equals the bytes sent")
}

// VerifH_C16_two_cycles: two poll cycles of one session with different Accept-Encoding
// values and different compression requests: each response is coded according to ITS OWN
// request, and only if a packet of ITS OWN batch asked for compression.
func VerifH_C16_two_cycles() {
	p, _ := newPolling("4")
	p.SetHttpCompression(&types.HttpCompression{Threshold: 0})
	for cycle := 0; cycle < 2; cycle++ {
		ae := c16Accept[verif.Choose(6)]
		ctx, w := newCtx("GET", "4")
		if ae != "" {
			ctx.Request().Header.Set("Accept-Encoding", ae)
			ctx.Headers().Set("Accept-Encoding", ae)
		}
		p.OnRequest(ctx)
		// one or two packets; each asks for compression, declines it, or carries no options
		asked := false
		var batch []*packet.Packet
		want := ""
		n := 1 + verif.Choose(2)
		for i := 0; i < n; i++ {
			pk := &packet.Packet{Type: packet.MESSAGE, Data: types.NewStringBufferString("hello")}
			switch verif.Choose(3) {
			case 0:
				pk.Options = &packet.Options{Compress: true}
				asked = true
			case 1:
				pk.Options = &packet.Options{Compress: false}
			}
			batch = append(batch, pk)
			if i > 0 {
				want += "\x1e"
			}
			want += "4hello"
		}
		p.Send(batch)
		verif.Settle()
		verif.Assert(w.writeCalls == 1, "one response per cycle")
		if w.writeCalls != 1 {
			return
		}
		enc := w.hdr.Get("Content-Encoding")
		if enc != "" {
			verif.Assert(asked, "a response is compressed only when a packet of its own batch requested compression")
			verif.Assert(refAccepts(ae, enc), "the coding is one the request of THIS cycle names")
			dec, ok := decodeBody(enc, w.bodies[0])
			verif.Assert(ok && string(dec) == want, "and the body decodes under it to the payload")
		} else {
			verif.Assert(string(w.bodies[0]) == want, "uncoded body is the payload")
			if asked {
				verif.Assert(!refAccepts(ae, "gzip") && !refAccepts(ae, "deflate") && !refAccepts(ae, "br") && !refAccepts(ae, "zstd"), "no coding only when the request names none of the supported ones")
			}
		}
	}
}

// refSplitV3 splits a revision-3 text payload "<len>:<packet><len>:<packet>..." (lengths
// in characters; the harness uses ASCII data, so characters are bytes).
func refSplitV3(s string) (out []string, ok bool) {
	for len(s) > 0 {
		i := strings.IndexByte(s, ':')
		if i <= 0 {
			return out, false
		}
		n, err := strconv.Atoi(s[:i])
		if err != nil || n < 0 || i+1+n > len(s) {
			return out, false
		}
		out = append(out, s[i+1:i+1+n])
		s = s[i+1+n:]
	}
	return out, true
}

// VerifH_C16_poll_cycle_v3: the same cycle on a revision-3 session: the body is the
// length-prefixed text payload of exactly the packets handed over, in order.
func VerifH_C16_poll_cycle_v3() {
	p, _ := newPolling("3")
	ctx, w := newCtx("GET", "3")
	p.OnRequest(ctx)
	n := verif.Choose(3) + 1
	var batch []*packet.Packet
	var want []string
	for i := 0; i < n; i++ {
		switch verif.Choose(3) {
		case 0:
			d := verif.BytesN(verif.Int(0, 2))
			for _, b := range d {
				verif.Assume(b >= 0x20 && b < 0x7f)
			}
			batch = append(batch, &packet.Packet{Type: packet.MESSAGE, Data: types.NewStringBuffer(append([]byte(nil), d...))})
			want = append(want, "4"+string(d))
		case 1:
			batch = append(batch, &packet.Packet{Type: packet.NOOP})
			want = append(want, "6")
		case 2:
			batch = append(batch, &packet.Packet{Type: packet.PONG, Data: types.NewStringBufferString("probe")})
			want = append(want, "3probe")
		}
	}
	p.Send(batch)
	verif.Settle()
	verif.Assert(w.writeCalls == 1 && len(w.status) == 1 && w.status[0] == 200, "the pending poll is answered once")
	if w.writeCalls != 1 {
		return
	}
	got, ok := refSplitV3(string(w.bodies[0]))
	verif.Assert(ok, "the body is a well-formed length-prefixed payload")
	verif.Assert(len(got) == len(want), "as many packets as handed to the transport")
	if ok && len(got) == len(want) {
		for i := range want {
			verif.Assert(got[i] == want[i], "each packet intact, in order")
		}
	}
	verif.Assert(w.hdr.Get("Content-Type") == "text/plain; charset=UTF-8", "text payload")
}

// scriptSafe: what a JavaScript string literal embedded in a <script> must not contain raw.
func scriptSafe(lit string) bool {
	for i := 0; i < len(lit); i++ {
		c := lit[i]
		if c < 0x20 || c == '<' || c == '>' || c == '&' {
			return false
		}
		if c == 0xe2 && i+2 < len(lit) && lit[i+1] == 0x80 && (lit[i+2] == 0xa8 || lit[i+2] == 0xa9) {
			return false
		}
	}
	return true
}

// VerifH_C16_large_body: poll responses whose body is larger than the 32 KiB chunk the
// standard copy helpers work with (32768, 32769, 70000 bytes as sent; plain text, binary):
// the body sent is the whole payload in one response and Content-Length equals it.
func VerifH_C16_large_body() {
	p, _ := newPolling("4")
	n := [3]int{32768, 32769, 70000}[verif.Choose(3)]
	payload := make([]byte, n)
	for i := range payload {
		payload[i] = 'a' + byte(i%7)
	}
	isText := verif.Bool()
	var data types.BufferInterface
	if isText {
		data = types.NewStringBuffer(payload)
	} else {
		data = types.NewBytesBuffer(payload)
	}
	ctx, w := newCtx("GET", "4")
	p.OnRequest(ctx)
	calls := 0
	p.DoWrite(ctx, data, &packet.Options{Compress: false}, func(err error) {
		calls++
		verif.Assert(err == nil, "completion without error")
	})
	verif.Settle()
	verif.Assert(calls == 1 && len(w.status) == 1 && w.status[0] == 200, "exactly one 200 response")
	sent := 0
	for _, b := range w.bodies {
		sent += len(b)
	}
	verif.Assert(sent == n, "the whole body is sent")
	verif.Assert(w.hdr.Get("Content-Length") == strconv.Itoa(sent), "Content-Length equals the bytes sent")
	if sent == n && len(w.bodies) == 1 {
		for _, j := range []int{0, 32767, 32768, n - 1} {
			if j < n {
				verif.Assert(w.bodies[0][j] == 'a'+byte(j%7), "bytes intact")
			}
		}
	}
}

// VerifH_C17_vary_survives_compression: a poll response of a session behind a CORS policy
// that depends on the request (the middleware has put Vary: Origin and the reflected origin
// on the response) goes through HTTP compression or not: the response as sent still carries
// Vary: Origin and the Access-Control-Allow-Origin the middleware computed.
func VerifH_C17_vary_survives_compression() {
	p, _ := newPolling("4")
	p.SetHttpCompression(&types.HttpCompression{Threshold: 0})
	ae := c16Accept[verif.Choose(6)]
	ctx, w := newCtx("GET", "4")
	if ae != "" {
		ctx.Request().Header.Set("Accept-Encoding", ae)
		ctx.Headers().Set("Accept-Encoding", ae)
	}
	// what types.CorsMiddleware leaves on the context for an allowed origin of a list policy
	ctx.ResponseHeaders.Set("Access-Control-Allow-Origin", "https://app.example")
	ctx.ResponseHeaders.Set("Vary", "Origin")
	p.OnRequest(ctx)
	p.Send([]*packet.Packet{{Type: packet.MESSAGE, Data: types.NewStringBufferString("hello"), Options: &packet.Options{Compress: verif.Bool()}}})
	verif.Settle()
	verif.Assert(w.writeCalls == 1, "one response")
	vary := ""
	for i, v := range w.hdr.Values("Vary") {
		if i > 0 {
			vary += ", "
		}
		vary += v
	}
	hasOrigin := false
	for _, t := range strings.Split(vary, ",") {
		if strings.TrimSpace(t) == "Origin" || strings.TrimSpace(t) == "*" {
			hasOrigin = true
		}
	}
	verif.Assert(hasOrigin, "the response as sent carries Vary: Origin whenever the allowed origin depends on the request, compressed or not")
	verif.Assert(w.hdr.Get("Access-Control-Allow-Origin") == "https://app.example", "and the Access-Control-Allow-Origin the policy computed")
}
