package transports

// Harness-side environment for package transports.  Injected through a build overlay.

import (
	"io"
	"net/http"
	"net/url"
	"time"

	"github.com/quic-go/quic-go"
	"github.com/zishang520/engine.io-go-parser/packet"
	"github.com/zishang520/engine.io/v2/types"
	"github.com/zishang520/engine.io/v2/webtransport"
	verif "github.com/zishang520/engine.io/v2/internal/zzverif"
	wt "github.com/zishang520/webtransport-go"
)

type fakeWriter struct {
	hdr        http.Header
	status     []int
	bodies     [][]byte
	writeCalls int
	onWrite    func()
	hold       chan struct{} // when set, WriteHeader blocks until it is closed (a slow connection)
}

func (w *fakeWriter) Header() http.Header {
	if w.hdr == nil {
		w.hdr = http.Header{}
	}
	return w.hdr
}
func (w *fakeWriter) WriteHeader(code int) {
	if w.hold != nil {
		<-w.hold
	}
	w.status = append(w.status, code)
}
func (w *fakeWriter) Write(b []byte) (int, error) {
	if w.onWrite != nil {
		w.onWrite()
	}
	w.writeCalls++
	w.bodies = append(w.bodies, append([]byte(nil), b...))
	return len(b), nil
}

type fakeBody struct {
	data   []byte
	pos    int
	chunk  int
	closed bool
	reads  int
}

func (b *fakeBody) Read(p []byte) (int, error) {
	b.reads++
	if b.pos >= len(b.data) {
		return 0, io.EOF
	}
	n := len(b.data) - b.pos
	if n > len(p) {
		n = len(p)
	}
	if b.chunk > 0 && n > b.chunk {
		n = b.chunk
	}
	copy(p, b.data[b.pos:b.pos+n])
	b.pos += n
	return n, nil
}
func (b *fakeBody) Close() error { b.closed = true; return nil }

func newCtx(method string, eio string) (*types.HttpContext, *fakeWriter) {
	w := &fakeWriter{}
	r := &http.Request{Method: method, URL: &url.URL{Path: "/engine.io/"}, Header: http.Header{}, Proto: "HTTP/1.1", RemoteAddr: "192.0.2.1:1234"}
	c := types.NewHttpContext(w, r)
	if eio != "" {
		c.Query().Set("EIO", eio)
	}
	verif.Cleanup(c.Flush)
	return c, w
}

// memStream: an in-memory WebTransport stream.  Writes are recorded; reads serve `in`
// and then block (the peer is silent) or report the configured error.
type memStream struct {
	wire    []byte
	writes  int
	failAt  int // index of the Write that fails, -1 never
	in      []byte
	pos     int
	endErr  error // returned when `in` is exhausted; nil = block forever
	block   chan struct{}
	onWrite func()
}

var errStreamWrite = &strErr{"mem stream: write failed"}

type strErr struct{ s string }

func (e *strErr) Error() string { return e.s }

func (s *memStream) Write(p []byte) (int, error) {
	if s.onWrite != nil {
		s.onWrite()
	}
	k := s.writes
	s.writes++
	if s.failAt >= 0 && k == s.failAt {
		return 0, errStreamWrite
	}
	s.wire = append(s.wire, p...)
	return len(p), nil
}
func (s *memStream) Read(p []byte) (int, error) {
	if s.pos < len(s.in) {
		n := copy(p, s.in[s.pos:])
		s.pos += n
		return n, nil
	}
	if s.endErr != nil {
		return 0, s.endErr
	}
	<-s.block
	return 0, io.EOF
}
func (s *memStream) Close() error                     { return nil }
func (s *memStream) StreamID() quic.StreamID          { return 0 }
func (s *memStream) CancelWrite(wt.StreamErrorCode)   {}
func (s *memStream) CancelRead(wt.StreamErrorCode)    {}
func (s *memStream) SetWriteDeadline(time.Time) error { return nil }
func (s *memStream) SetReadDeadline(time.Time) error  { return nil }
func (s *memStream) SetDeadline(time.Time) error      { return nil }

func newMemStream(in []byte, endErr error) *memStream {
	return &memStream{failAt: -1, in: in, endErr: endErr, block: make(chan struct{})}
}

// frame is one decoded wire frame (reference decoder written from the protocol text).
type frame struct {
	binary  bool
	payload []byte
}

func refDecodeWire(w []byte) (out []frame, ok bool) {
	i := 0
	for i < len(w) {
		b := w[i]
		n := int(b & 0x7f)
		h := 1
		if n == 126 {
			if i+3 > len(w) {
				return out, false
			}
			n = int(w[i+1])<<8 | int(w[i+2])
			h = 3
		} else if n == 127 {
			if i+9 > len(w) {
				return out, false
			}
			n = 0
			for k := 1; k <= 8; k++ {
				n = n<<8 | int(w[i+k])
			}
			h = 9
		}
		if i+h+n > len(w) {
			return out, false
		}
		out = append(out, frame{b&0x80 != 0, w[i+h : i+h+n]})
		i += h + n
	}
	return out, true
}

// recorder of events on any emitter.
type evRec struct {
	names []string
	args  [][]any
}

func (r *evRec) listen(e types.EventEmitter, names ...string) {
	for _, n := range names {
		n := n
		e.On(types.EventName(n), func(a ...any) {
			r.names = append(r.names, n)
			r.args = append(r.args, a)
		})
	}
}
func (r *evRec) count(name string) int {
	c := 0
	for _, n := range r.names {
		if n == name {
			c++
		}
	}
	return c
}
func (r *evRec) index(name string, k int) int {
	for i, n := range r.names {
		if n == name {
			if k == 0 {
				return i
			}
			k--
		}
	}
	return -1
}

// newWT builds the real webTransport transport over a real webtransport.Conn on a memStream.
func newWT(st *memStream, eio string) (*webTransport, *types.HttpContext) {
	ctx, _ := newCtx("GET", eio)
	ctx.WebTransport = &types.WebTransportConn{EventEmitter: types.NewEventEmitter(), Conn: webtransport.NewConn(nil, st, true, 16, 4, nil, nil, nil)}
	w := NewWebTransport(ctx).(*webTransport)
	return w, ctx
}

var _ = packet.OPEN
