package transports

import (
	"github.com/zishang520/engine.io-go-parser/packet"
	"github.com/zishang520/engine.io/v2/internal/zzmodels"
	"github.com/zishang520/engine.io/v2/types"
	verif "github.com/zishang520/engine.io/v2/internal/zzverif"
)

var c12NativeClosed bool

// closeTransportWT closes the transport; natively a Conn on an in-memory stream has no
// QUIC session and the library panics when told to close it, which counts as closed.
func closeTransportWT(w *webTransport) {
	if !verif.Symbolic() {
		defer func() {
			if recover() != nil {
				c12NativeClosed = true
			}
		}()
	}
	w.Close(func() {})
}

// VerifH_C12_wt_close_after_send: the session hands a batch to the WebTransport transport
// and closes it gracefully right away (its own buffer is empty, so it does not wait for a
// drain): the batch must still reach the wire before the connection is torn down.
func VerifH_C12_wt_close_after_send() {
	c12NativeClosed = false
	st := newMemStream(nil, nil)
	w, _ := newWT(st, "4")
	lateWrites := 0
	st.onWrite = func() {
		if zzmodels.SessionCloseCalls > 0 || c12NativeClosed {
			lateWrites++
		}
	}
	base := zzmodels.SessionCloseCalls
	_ = base
	n := verif.Choose(2) + 1
	var batch []*packet.Packet
	for i := 0; i < n; i++ {
		batch = append(batch, &packet.Packet{Type: packet.MESSAGE, Data: types.NewStringBufferString("m")})
	}
	w.Send(batch)
	if verif.Bool() {
		verif.Settle() // the write cycle completes before the close: always fine
	}
	closeTransportWT(w)
	verif.Settle()
	frames, ok := refDecodeWire(st.wire)
	verif.Assert(lateWrites == 0, "nothing is written after the connection was torn down")
	verif.Assert(ok && len(frames) == n, "every packet handed over before the graceful close reaches the wire")
}
