package transports

import (
	"github.com/zishang520/engine.io-go-parser/packet"
	"github.com/zishang520/engine.io/v2/types"
	verif "github.com/zishang520/engine.io/v2/internal/zzverif"
)

// VerifH_C09_polling_hostile: a data request with ARBITRARY body bytes, any content type
// from a menu, any declared length, on both revisions (real payload parsers): no panic,
// at most one response, the request handler is not left blocked, the slot is released.
func VerifH_C09_polling_hostile() {
	eio := [2]string{"4", "3"}[verif.Choose(2)]
	p, rec := newPolling(eio)
	p.SetMaxHttpBufferSize(1 << 20)
	body := verif.BytesN(verif.Int(0, 3))
	ctx, w := newCtx("POST", eio)
	ct := [4]string{"text/plain;charset=UTF-8", "application/octet-stream", "", "application/x-www-form-urlencoded"}[verif.Choose(4)]
	if ct != "" {
		ctx.Request().Header.Set("Content-Type", ct)
	}
	declared := verif.Int64()
	verif.Assume(declared == int64(len(body)) || declared == -1)
	ctx.Request().ContentLength = declared
	ctx.Request().Body = &fakeBody{data: body}
	p.OnRequest(ctx)
	verif.Settle()
	verif.Assert(w.writeCalls <= 1, "never two responses")
	if !(ct == "application/octet-stream" && eio == "4") {
		verif.Assert(w.writeCalls == 1, "the request is answered")
	}
	verif.Assert(p.dataCtx.Load() == nil || w.writeCalls == 0, "the data slot is released once the request is answered")
	_ = rec
}

// VerifH_C09_accept_encoding_bytes: the Accept-Encoding header is client input: a coding
// name followed by ARBITRARY parameter bytes must never crash the response writer.
func VerifH_C09_accept_encoding_bytes() {
	p, _ := newPolling("4")
	p.SetHttpCompression(&types.HttpCompression{Threshold: 0})
	tail := verif.String(2)
	for i := 0; i < len(tail); i++ {
		verif.Assume(tail[i] < 0x80) // header values are ASCII
	}
	ae := [2]string{"gzip;", "br ;"}[verif.Choose(2)] + tail
	ctx, w := newCtx("GET", "4")
	ctx.Request().Header.Set("Accept-Encoding", ae)
	ctx.Headers().Set("Accept-Encoding", ae)
	p.OnRequest(ctx)
	p.Send([]*packet.Packet{{Type: packet.MESSAGE, Data: types.NewStringBufferString("hi"), Options: &packet.Options{Compress: true}}})
	verif.Settle()
	verif.Assert(w.writeCalls == 1, "the poll is answered")
}
