package transports

import (
	"io"

	"github.com/zishang520/engine.io-go-parser/packet"
	"github.com/zishang520/engine.io/v2/types"
	verif "github.com/zishang520/engine.io/v2/internal/zzverif"
)

type inPkt struct {
	t    packet.Type
	data []byte
}

// pickInbound builds a list of up to n client packets (text messages with up to 2
// arbitrary bytes, pings, noops, a close) and its v4 payload encoding, written from the
// protocol text: packets joined by 0x1e, each the type digit followed by the data.
func pickInbound(n int) ([]inPkt, []byte) {
	var pk []inPkt
	var payload []byte
	for i := 0; i < n; i++ {
		if i > 0 {
			payload = append(payload, 0x1e)
		}
		switch verif.Choose(4) {
		case 0:
			d := verif.BytesN(verif.Int(0, 2))
			for _, b := range d {
				verif.Assume(b != 0x1e)
			}
			pk = append(pk, inPkt{packet.MESSAGE, d})
			payload = append(append(payload, '4'), d...)
		case 1:
			pk = append(pk, inPkt{packet.PING, nil})
			payload = append(payload, '2')
		case 2:
			pk = append(pk, inPkt{packet.NOOP, nil})
			payload = append(payload, '6')
		case 3:
			pk = append(pk, inPkt{packet.CLOSE, nil})
			payload = append(payload, '1')
		}
	}
	return pk, payload
}

func readAll(r io.Reader) []byte {
	if r == nil {
		return nil
	}
	b, _ := io.ReadAll(r)
	return b
}

// checkDelivered compares the 'packet' events of rec (from index from) with want.
func checkDelivered(rec *evRec, want []inPkt) {
	n := rec.count("packet")
	verif.Assert(n == len(want), "exactly the submitted packets are delivered, once each")
	if n != len(want) {
		return
	}
	for i := range want {
		p := rec.args[rec.index("packet", i)][0].(*packet.Packet)
		verif.Assert(p.Type == want[i].t, "packet type, in submission order")
		if want[i].t == packet.MESSAGE {
			verif.Assert(sameBytes(readAll(p.Data), want[i].data), "message bytes intact")
			_, isText := p.Data.(*types.StringBuffer)
			verif.Assert(isText, "text stays text")
		}
	}
}

// VerifH_C02_polling_payload: a v4 polling payload of up to 3 packets: every packet before
// the first close packet is delivered once, in order, intact; the close packet closes the
// transport once and nothing after it is delivered.
func VerifH_C02_polling_payload() {
	p, rec := newPolling("4")
	n := verif.Choose(3) + 1
	pk, payload := pickInbound(n)
	p.OnData(types.NewStringBuffer(payload))
	verif.Settle()
	var want []inPkt
	closed := false
	for _, q := range pk {
		if q.t == packet.CLOSE {
			closed = true
			break
		}
		want = append(want, q)
	}
	checkDelivered(rec, want)
	if closed {
		verif.Assert(rec.count("close") == 1 && p.ReadyState() == "closed", "a close packet closes the transport exactly once")
	} else {
		verif.Assert(rec.count("close") == 0 && p.ReadyState() == "open", "no close packet, no close")
	}
}

// VerifH_C02_wt_frames: WebTransport frames (reference-encoded) arriving on the stream are
// delivered one packet per frame, in order, text as text and binary as binary; when the
// stream ends the failure is reported once and nothing more is delivered.
func VerifH_C02_wt_frames() {
	n := verif.Choose(3) + 1
	var wire []byte
	var want []inPkt
	var wantText []bool
	for i := 0; i < n; i++ {
		d := verif.BytesN(verif.Int(0, 2))
		if verif.Bool() { // text frame "4"+data
			wire = append(wire, byte(1+len(d)), '4')
			wire = append(wire, d...)
			wantText = append(wantText, true)
		} else { // binary frame: raw message bytes
			wire = append(wire, 0x80|byte(len(d)))
			wire = append(wire, d...)
			wantText = append(wantText, false)
		}
		want = append(want, inPkt{packet.MESSAGE, d})
	}
	st := newMemStream(wire, io.EOF)
	w, ctx := newWT(st, "4")
	rec := &evRec{}
	rec.listen(w, "packet", "error", "close")
	crec := &evRec{}
	crec.listen(ctx.WebTransport, "error", "close")
	verif.Settle()
	cnt := rec.count("packet")
	verif.Assert(cnt == len(want), "one packet per frame")
	if cnt == len(want) {
		for i := range want {
			p := rec.args[rec.index("packet", i)][0].(*packet.Packet)
			verif.Assert(p.Type == packet.MESSAGE, "message packets")
			verif.Assert(sameBytes(readAll(p.Data), want[i].data), "bytes intact, in order")
			_, isText := p.Data.(*types.StringBuffer)
			verif.Assert(isText == wantText[i], "text/binary kind preserved")
		}
	}
	verif.Assert(crec.count("error")+crec.count("close") == 1, "the end of the stream is reported exactly once")
}

// refJsonpUnescape: what the JSONP form body means, from the comment in the source and
// the upstream client: "\\n" (two backslashes, n) is an escaped backslash-n and becomes
// backslash-n; "\n" (one backslash, n) is a newline.
func refJsonpUnescape(s string) string {
	var out []byte
	for i := 0; i < len(s); {
		if i+2 < len(s) && s[i] == '\\' && s[i+1] == '\\' && s[i+2] == 'n' {
			out = append(out, '\\', 'n')
			i += 3
		} else if i+1 < len(s) && s[i] == '\\' && s[i+1] == 'n' {
			out = append(out, '\n')
			i += 2
		} else {
			out = append(out, s[i])
			i++
		}
	}
	return string(out)
}

// VerifH_C02_jsonp_body: a JSONP form body d=<message> whose text is up to 4 bytes over
// the alphabet {backslash, n, x}: the message delivered is the reference un-escaping.
func VerifH_C02_jsonp_body() {
	hctx, _ := newCtx("GET", "4")
	hctx.Query().Set("j", "0")
	t := NewJSONP(hctx).(*jsonp)
	rec := &evRec{}
	rec.listen(t, "packet", "error")
	k := verif.Concretize(verif.Int(0, 4))
	txt := make([]byte, k)
	for i := range txt {
		txt[i] = [3]byte{'\\', 'n', 'x'}[verif.Choose(3)]
	}
	t.OnData(types.NewStringBufferString("d=4" + string(txt)))
	verif.Assert(rec.count("error") == 0, "a well-formed body is not an error")
	verif.Assert(rec.count("packet") == 1, "one message delivered")
	if rec.count("packet") == 1 {
		p := rec.args[rec.index("packet", 0)][0].(*packet.Packet)
		verif.Assert(p.Type == packet.MESSAGE, "a message")
		verif.Assert(string(readAll(p.Data)) == refJsonpUnescape(string(txt)), "escaped newlines are undone exactly once")
	}
}

// VerifH_C02_polling_payload_v3: the same for a revision-3 text payload
// ("<len>:<packet>..." with ASCII data).
func VerifH_C02_polling_payload_v3() {
	p, rec := newPolling("3")
	n := verif.Choose(3) + 1
	var pk []inPkt
	var payload []byte
	for i := 0; i < n; i++ {
		switch verif.Choose(3) {
		case 0:
			d := verif.BytesN(verif.Int(0, 2))
			for _, b := range d {
				verif.Assume(b >= 0x20 && b < 0x7f)
			}
			pk = append(pk, inPkt{packet.MESSAGE, d})
			payload = append(payload, byte('0'+1+len(d)), ':', '4')
			payload = append(payload, d...)
		case 1:
			pk = append(pk, inPkt{packet.PING, nil})
			payload = append(payload, '1', ':', '2')
		case 2:
			pk = append(pk, inPkt{packet.CLOSE, nil})
			payload = append(payload, '1', ':', '1')
		}
	}
	p.OnData(types.NewStringBuffer(payload))
	verif.Settle()
	var want []inPkt
	closed := false
	for _, q := range pk {
		if q.t == packet.CLOSE {
			closed = true
			break
		}
		want = append(want, q)
	}
	checkDelivered(rec, want)
	verif.Assert((rec.count("close") == 1) == closed, "closed exactly when the payload carried a close packet")
}

// refEncodeFrame: one WebTransport frame, from the protocol text (minimal length form).
func refEncodeFrame(binary bool, payload []byte) []byte {
	var b0 byte
	if binary {
		b0 = 0x80
	}
	n := len(payload)
	var out []byte
	switch {
	case n < 126:
		out = append(out, b0|byte(n))
	case n < 65536:
		out = append(out, b0|126, byte(n>>8), byte(n))
	default:
		out = append(out, b0|127, 0, 0, 0, 0, byte(n>>24), byte(n>>16), byte(n>>8), byte(n))
	}
	return append(out, payload...)
}

// VerifH_C02_wt_boundary_frames: the same delivery property for frames whose payload length
// sits on the boundaries of the 7-bit / 16-bit length forms (124..129 bytes; thorough also 130, 255..257; the 16/64-bit boundary is covered by C14/C15, whose symbolic lengths do not need 64 KiB of payload):
// a frame of a boundary length, then a short one; both are delivered, once, in order, intact.
func VerifH_C02_wt_boundary_frames() {
	sizes := []int{124, 125, 126, 127, 128, 129}
	if verif.Tier() > 0 {
		sizes = append(sizes, 130, 255, 256, 257)
	}
	n := sizes[verif.Choose(len(sizes))]
	binary := verif.Bool()
	// the content is not the point here (C13-C15 cover it symbolically): a fixed pattern,
	// with two symbolic bytes at the ends of a binary payload
	payload := make([]byte, n)
	for i := range payload {
		payload[i] = 'a' + byte(i%23)
	}
	if binary {
		payload[0], payload[n-1] = verif.Byte(), verif.Byte()
	} else {
		payload[0] = '4' // a text message frame: type character + text
	}
	wire := refEncodeFrame(binary, payload)
	wire = append(wire, 0x80|2, 'o', 'k')
	st := newMemStream(wire, io.EOF)
	w, _ := newWT(st, "4")
	w.SetMaxHttpBufferSize(1 << 20)
	rec := &evRec{}
	rec.listen(w, "packet", "error", "close")
	verif.Settle()
	verif.Assert(rec.count("packet") == 2, "both frames are delivered, one packet each")
	if rec.count("packet") != 2 {
		return
	}
	p := rec.args[rec.index("packet", 0)][0].(*packet.Packet)
	got := readAll(p.Data)
	want := payload
	if !binary {
		want = payload[1:]
	}
	verif.Assert(p.Type == packet.MESSAGE && len(got) == len(want), "the boundary-length frame is one message of the same length")
	j := verif.Int(0, 3)
	if j < len(got) && j < len(want) {
		verif.Assert(got[j] == want[j], "bytes intact")
	}
	if len(got) == len(want) && len(want) > 0 {
		verif.Assert(got[len(got)-1] == want[len(want)-1], "last byte intact")
	}
	_, isText := p.Data.(*types.StringBuffer)
	verif.Assert(isText == !binary, "text/binary kind preserved")
	q := rec.args[rec.index("packet", 1)][0].(*packet.Packet)
	verif.Assert(sameBytes(readAll(q.Data), []byte("ok")), "the frame after it is intact")
}
