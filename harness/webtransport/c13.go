package webtransport

import (
	"io"

	verif "github.com/zishang520/engine.io/v2/internal/zzverif"
)

// wire flattens everything written to the stream.
func (s *fakeStream) wire() []byte {
	var w []byte
	for _, g := range s.segs {
		w = append(w, g...)
	}
	return w
}

// newReaderConn returns a Conn reading the given wire bytes through a real bufio.Reader
// of the smallest size, with a concrete fragmentation chosen from a small menu.
func newReaderConn(wire []byte, nchunk int) (*Conn, *fakeReader) {
	rd := &fakeReader{data: wire, fail: -1}
	rd.chunk = [5]int{0, 1, 3, 2, 5}[verif.Choose(nchunk)]
	return NewConn(nil, &fakeStream{rd: rd, failAt: -1}, false, 16, 0, nil, nil, nil), rd
}

// expectMessage reads one message from rc and compares it with (kind, data).
func expectMessage(rc *Conn, kind int, data []byte, what string) {
	mt, p, err := rc.ReadMessage()
	verif.Assert(err == nil, what+": read back without error")
	if err != nil {
		return
	}
	verif.Assert(mt == kind, what+": same kind")
	verif.Assert(len(p) == len(data), what+": same length")
	j := verif.Int(0, 63)
	if j < len(p) && j < len(data) {
		verif.Assert(p[j] == data[j], what+": same bytes")
	}
}

func expectEnd(rc *Conn, what string) {
	_, r, err := rc.NextReader()
	verif.Assert(err != nil && r == nil, what+": nothing after the last message")
}

func pickConn(st *fakeStream, w int) *Conn {
	server := verif.Bool()
	if verif.Bool() {
		return NewConn(nil, st, server, 0, w, &fakePool{}, nil, nil)
	}
	return NewConn(nil, st, server, 0, w, nil, nil, nil)
}

// fakePool hands out nothing the first time and whatever was put back afterwards.
type fakePool struct{ v interface{} }

func (p *fakePool) Get() interface{}  { v := p.v; p.v = nil; return v }
func (p *fakePool) Put(v interface{}) { p.v = v }

func c13W() int {
	if verif.Tier() > 0 {
		return [4]int{1, 4, 2, 8}[verif.Choose(4)]
	}
	return [2]int{1, 4}[verif.Choose(2)]
}

// One-shot writes: two messages in a row, any kinds, lengths across the buffer thresholds.
func VerifH_C13_oneshot_roundtrip() {
	w := c13W()
	st := &fakeStream{failAt: -1}
	c := pickConn(st, w)
	maxLen := 2*(w+9) + 3
	k1, k2 := verif.Choose(2)+1, verif.Choose(2)+1
	d1, d2 := verif.BytesN(verif.Int(0, maxLen)), verif.BytesN(verif.Int(0, 2))
	verif.Assert(c.WriteMessage(k1, d1) == nil, "write 1")
	verif.Assert(c.WriteMessage(k2, d2) == nil, "write 2")
	rc, _ := newReaderConn(st.wire(), 2)
	expectMessage(rc, k1, d1, "message 1")
	expectMessage(rc, k2, d2, "message 2")
	expectEnd(rc, "stream")
}

// Streaming writer fed with two (quick) or three (thorough) writes of arbitrary sizes.
func VerifH_C13_stream_roundtrip()  { c13Stream(false) }
func VerifHT_C13_stream3_roundtrip() { c13Stream(true) }

func c13Stream(three bool) {
	w := c13W()
	st := &fakeStream{failAt: -1}
	c := pickConn(st, w)
	maxLen := 2*(w+9) + 3
	kind := verif.Choose(2) + 1
	data := verif.BytesN(verif.Int(0, maxLen))
	wr, err := c.NextWriter(kind)
	verif.Assert(err == nil, "NextWriter")
	a := verif.Concretize(verif.Int(0, len(data)))
	b := len(data)
	if three {
		b = verif.Concretize(verif.Int(a, len(data)))
	}
	useString := verif.Bool()
	n1, e1 := wr.Write(data[:a])
	var n2 int
	var e2 error
	if useString {
		n2, e2 = io.WriteString(wr, string(data[a:b]))
	} else {
		n2, e2 = wr.Write(data[a:b])
	}
	n3, e3 := wr.Write(data[b:])
	verif.Assert(e1 == nil && e2 == nil && e3 == nil, "writes succeed")
	verif.Assert(n1 == a && n2 == b-a && n3 == len(data)-b, "write counts")
	verif.Assert(wr.Close() == nil, "Close")
	rc, _ := newReaderConn(st.wire(), 2)
	expectMessage(rc, kind, data, "streamed message")
	expectEnd(rc, "stream")
}

// Reader-fed writer.
func VerifH_C13_readfrom_roundtrip() {
	w := c13W()
	st := &fakeStream{failAt: -1}
	c := pickConn(st, w)
	maxLen := 2*(w+9) + 3
	kind := verif.Choose(2) + 1
	data := verif.BytesN(verif.Int(0, maxLen))
	wr, err := c.NextWriter(kind)
	verif.Assert(err == nil, "NextWriter")
	src := &fakeReader{data: data, fail: -1}
	src.chunk = [3]int{0, 1, 3}[verif.Choose(3)]
	src.eofWithData = verif.Bool() // a reader may return its last bytes together with io.EOF
	n, err := wr.(io.ReaderFrom).ReadFrom(src)
	verif.Assert(err == nil && n == int64(len(data)), "ReadFrom consumed everything")
	verif.Assert(wr.Close() == nil, "Close")
	rc, _ := newReaderConn(st.wire(), 2)
	expectMessage(rc, kind, data, "reader-fed message")
	expectEnd(rc, "stream")
}

// Prepared message, written twice to a server or client connection.
func VerifH_C13_prepared_roundtrip() {
	st := &fakeStream{failAt: -1}
	server := verif.Bool()
	c := NewConn(nil, st, server, 0, 4, nil, nil, nil)
	kind := verif.Choose(2) + 1
	data := verif.BytesN(verif.Int(0, 20))
	pm, err := NewPreparedMessage(kind, data)
	verif.Assert(err == nil, "NewPreparedMessage")
	if err != nil {
		return
	}
	verif.Assert(c.WritePreparedMessage(pm) == nil, "write prepared 1")
	verif.Assert(c.WritePreparedMessage(pm) == nil, "write prepared 2")
	rc, _ := newReaderConn(st.wire(), 2)
	expectMessage(rc, kind, data, "prepared 1")
	expectMessage(rc, kind, data, "prepared 2")
	expectEnd(rc, "stream")
}

// Messages whose length needs an extended length field (126 and 300 bytes), read back
// through the smallest bufio buffer under every fragmentation of the menu: the header byte
// may arrive separately from the length bytes that follow it.
func VerifH_C13_roundtrip_extended() {
	st := &fakeStream{failAt: -1}
	c := NewConn(nil, st, verif.Bool(), 0, 4, nil, nil, nil)
	kind := verif.Choose(2) + 1
	n := [2]int{126, 300}[verif.Choose(2)]
	data := verif.BytesN(n)
	verif.Assert(c.WriteMessage(kind, data) == nil, "write")
	rc, _ := newReaderConn(st.wire(), 3)
	expectMessage(rc, kind, data, "extended-length message")
	expectEnd(rc, "stream")
}

// Two messages in a row through the streaming writer (the second one reuses whatever
// buffer the first one left behind: grown, pooled or fresh); the first writer is closed
// explicitly or implicitly by the next NextWriter.
func VerifH_C13_stream_two_messages() {
	w := c13W()
	st := &fakeStream{failAt: -1}
	c := pickConn(st, w)
	maxLen := 2*(w+9) + 3
	k1, k2 := verif.Choose(2)+1, verif.Choose(2)+1
	d1 := verif.BytesN(verif.Int(0, maxLen))
	d2 := verif.BytesN(verif.Int(0, 4))
	w1, err := c.NextWriter(k1)
	verif.Assert(err == nil, "NextWriter 1")
	n1, e1 := w1.Write(d1)
	verif.Assert(e1 == nil && n1 == len(d1), "Write 1")
	explicit := verif.Bool()
	if explicit {
		verif.Assert(w1.Close() == nil, "Close 1")
	}
	w2, err := c.NextWriter(k2)
	verif.Assert(err == nil, "NextWriter 2")
	n2, e2 := w2.Write(d2)
	verif.Assert(e2 == nil && n2 == len(d2), "Write 2")
	verif.Assert(w2.Close() == nil, "Close 2")
	rc, _ := newReaderConn(st.wire(), 2)
	expectMessage(rc, k1, d1, "first streamed message")
	expectMessage(rc, k2, d2, "second streamed message")
	expectEnd(rc, "stream")
}

// sharedPool: a last-in-first-out buffer pool shared by several connections (the shape of
// sync.Pool on one P): Get returns the buffer put back most recently.
type sharedPool struct{ free []interface{} }

func (p *sharedPool) Get() interface{} {
	if n := len(p.free); n > 0 {
		v := p.free[n-1]
		p.free = p.free[:n-1]
		return v
	}
	return nil
}
func (p *sharedPool) Put(v interface{}) { p.free = append(p.free, v) }

// VerifH_C13_shared_pool_overlap: two connections created with the same write-buffer pool.
// Connection A's stream is slow (flow control): its Write has been entered but the stream
// has not taken the bytes yet when connection B, on another goroutine, writes a message of
// its own.  Each peer must still read exactly the message written to its own connection,
// on every write path that ends a message (one-shot, streaming writer, reader-fed writer).
func VerifH_C13_shared_pool_overlap() {
	pool := &sharedPool{}
	w := [2]int{4, 1}[verif.Choose(2)]
	sa, sb := &fakeStream{failAt: -1}, &fakeStream{failAt: -1}
	server := verif.Bool()
	ca := NewConn(nil, sa, server, 0, w, pool, nil, nil)
	cb := NewConn(nil, sb, server, 0, w, pool, nil, nil)
	ka, kb := verif.Choose(2)+1, verif.Choose(2)+1
	da := verif.BytesN(verif.Int(0, w+3))
	db := verif.BytesN(verif.Int(0, w+3))
	wroteB := false
	sa.onWrite = func() { verif.Yield("stream A: write entered, bytes not taken yet") }
	verif.Event("connection B writes a message meanwhile", func() {
		wroteB = true
		verif.Assert(cb.WriteMessage(kb, db) == nil, "write on B")
	})
	verif.InjectBudget(1)
	switch verif.Choose(3) {
	case 0:
		verif.Assert(ca.WriteMessage(ka, da) == nil, "one-shot write on A")
	case 1:
		wr, err := ca.NextWriter(ka)
		verif.Assert(err == nil, "NextWriter on A")
		k := verif.Concretize(verif.Int(0, len(da)))
		wr.Write(da[:k])
		wr.Write(da[k:])
		verif.Assert(wr.Close() == nil, "Close on A")
	case 2:
		wr, err := ca.NextWriter(ka)
		verif.Assert(err == nil, "NextWriter on A")
		src := &fakeReader{data: da, fail: -1, chunk: 2}
		io.Copy(wr, src)
		verif.Assert(wr.Close() == nil, "Close on A")
	}
	verif.InjectBudget(0)
	ra, _ := newReaderConn(sa.wire(), 1)
	expectMessage(ra, ka, da, "A's message")
	expectEnd(ra, "A's stream")
	if wroteB {
		rb, _ := newReaderConn(sb.wire(), 1)
		expectMessage(rb, kb, db, "B's message")
		expectEnd(rb, "B's stream")
	}
}
