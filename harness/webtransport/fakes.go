package webtransport

// Harness-side fakes for the WebTransport framing layer.  This file is injected
// into package webtransport through a build overlay; it is never written to /repo.

import (
	"errors"
	"io"
	"time"

	"github.com/quic-go/quic-go"
	verif "github.com/zishang520/engine.io/v2/internal/zzverif"
	wt "github.com/zishang520/webtransport-go"
)

// fakeStream records what is written and serves reads from rd.
type fakeStream struct {
	segs     [][]byte // copies of every Write argument, in order
	rd       *fakeReader
	failAt   int   // index of the Write call that fails (-1: never)
	writes   int
	writeErr error
	onWrite  func() // runs when Write is entered, before the stream has taken the bytes
}

var errFakeWrite = errors.New("fake stream: write failed")

func (s *fakeStream) Write(p []byte) (int, error) {
	if s.onWrite != nil {
		s.onWrite()
	}
	k := s.writes
	s.writes++
	if s.failAt >= 0 && k == s.failAt {
		return 0, errFakeWrite
	}
	if len(p) <= 8192 {
		// the connection reuses its frame buffer: keep a copy
		cp := make([]byte, len(p))
		copy(cp, p)
		s.segs = append(s.segs, cp)
	} else {
		// large writes are slices of the caller's payload, which the harness never mutates
		s.segs = append(s.segs, p)
	}
	return len(p), nil
}
func (s *fakeStream) Read(p []byte) (int, error) {
	if s.rd == nil {
		return 0, io.EOF
	}
	return s.rd.Read(p)
}
func (s *fakeStream) Close() error                      { return nil }
func (s *fakeStream) StreamID() quic.StreamID           { return 0 }
func (s *fakeStream) CancelWrite(wt.StreamErrorCode)    {}
func (s *fakeStream) CancelRead(wt.StreamErrorCode)     {}
func (s *fakeStream) SetWriteDeadline(time.Time) error  { return nil }
func (s *fakeStream) SetReadDeadline(time.Time) error   { return nil }
func (s *fakeStream) SetDeadline(time.Time) error       { return nil }

// total number of bytes written.
func (s *fakeStream) total() int {
	n := 0
	for _, g := range s.segs {
		n += len(g)
	}
	return n
}

// at returns byte i of the concatenation of all writes (caller guarantees 0 <= i < total()).
func (s *fakeStream) at(i int) byte {
	for _, g := range s.segs {
		if i < len(g) {
			return g[i]
		}
		i -= len(g)
	}
	verif.Unreachable("fakeStream.at out of range")
	return 0
}

// fakeReader is the wire on the read side: arbitrary bytes, arbitrary
// fragmentation, an optional injected failure.
type fakeReader struct {
	data  []byte
	pos   int
	fail  int   // index of the Read call that fails, -1 = never
	err   error // the injected failure
	calls int
	frag  bool  // arbitrary (symbolic) fragmentation
	chunk int   // >0: at most chunk bytes per Read (concrete fragmentation)
	posAtFail int // stream offset reached when the failing read returned (bytes before it did arrive)
	failWithData bool // the injected failure is returned together with the bytes of that read (legal for an io.Reader)
	eofWithData bool // the final bytes are returned together with io.EOF (legal for an io.Reader; QUIC streams do this on FIN)
}

func (f *fakeReader) Read(p []byte) (int, error) {
	k := f.calls
	f.calls++
	if f.fail >= 0 && k == f.fail && !(f.failWithData && len(p) > 0 && f.pos < len(f.data)) {
		f.posAtFail = f.pos
		return 0, f.err
	}
	if len(p) == 0 {
		return 0, nil
	}
	if f.pos >= len(f.data) {
		return 0, io.EOF
	}
	n := len(f.data) - f.pos
	if n > len(p) {
		n = len(p)
	}
	if f.chunk > 0 && n > f.chunk {
		n = f.chunk
	}
	if f.frag {
		m := verif.Int(1, n)
		n = m
	}
	copy(p, f.data[f.pos:f.pos+n])
	f.pos += n
	if f.fail >= 0 && k == f.fail {
		f.posAtFail = f.pos
		return n, f.err // failWithData: these bytes arrived, and the stream failed
	}
	if f.eofWithData && f.pos >= len(f.data) {
		return n, io.EOF
	}
	return n, nil
}

// reference encoder, written from the Engine.IO WebTransport framing text.
func refHeaderLen(n int) int {
	if n < 126 {
		return 1
	}
	if n < 65536 {
		return 3
	}
	return 9
}

func refHeaderByte(kind int, n int, i int) byte {
	var b0 byte
	if kind == BinaryMessage {
		b0 = 0x80
	}
	switch {
	case n < 126:
		return b0 | byte(n)
	case n < 65536:
		switch i {
		case 0:
			return b0 | 126
		case 1:
			return byte(n >> 8)
		}
		return byte(n)
	}
	if i == 0 {
		return b0 | 127
	}
	return byte(uint64(n) >> (8 * uint(8-i)))
}
