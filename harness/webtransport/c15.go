package webtransport

import (
	"errors"
	"io"

	"github.com/zishang520/engine.io/v2/internal/zzmodels"
	verif "github.com/zishang520/engine.io/v2/internal/zzverif"
)

// ---- environment ----

type fakeTimeoutErr struct{}

func (fakeTimeoutErr) Error() string   { return "fake timeout" }
func (fakeTimeoutErr) Timeout() bool   { return true }
func (fakeTimeoutErr) Temporary() bool { return true }

var errFakeGeneric = errors.New("fake stream: read failed")

// refHeader is the reference parse of a frame header at data[off:], written from the
// protocol text: bit 7 = binary, low 7 bits = length, 126 -> 16-bit BE, 127 -> 64-bit BE
// whose top bit must be 0.
type refHeader struct {
	ok    bool // enough bytes for the whole header
	kind  int
	size  int    // header size
	ulen  uint64 // declared length as transmitted
}

func refParse(data []byte, off int) refHeader {
	var h refHeader
	if off >= len(data) {
		return h
	}
	b := data[off]
	h.kind = TextMessage
	if b&0x80 != 0 {
		h.kind = BinaryMessage
	}
	l7 := b & 0x7f
	switch {
	case l7 < 126:
		h.ok, h.size, h.ulen = true, 1, uint64(l7)
	case l7 == 126:
		if off+3 > len(data) {
			return h
		}
		h.ok, h.size = true, 3
		h.ulen = uint64(data[off+1])<<8 | uint64(data[off+2])
	default:
		if off+9 > len(data) {
			return h
		}
		h.ok, h.size = true, 9
		var v uint64
		for k := 1; k <= 8; k++ {
			v = v<<8 | uint64(data[off+k])
		}
		h.ulen = v
	}
	return h
}

// refAdvance is the offset of the frame after the one at off (saturating at the stream end).
func refAdvance(off int, h refHeader, n int) int {
	if h.ulen > uint64(n) {
		return n
	}
	off += h.size + int(h.ulen)
	if off > n {
		return n
	}
	return off
}

func pickInjectedErr() error {
	switch verif.Choose(3) {
	case 0:
		return io.EOF
	case 1:
		return errFakeGeneric
	}
	return fakeTimeoutErr{}
}

// callNextReader runs c.NextReader and reports whether the session was told to close
// (known only under the symbolic executor, where Session.CloseWithError is a recording
// model; natively the Conn carries a stub session whose close is a silent no-op).
func callNextReader(c *Conn) (mt int, r io.Reader, err error, closed bool) {
	before := zzmodels.SessionCloseCalls
	mt, r, err = c.NextReader()
	closed = zzmodels.SessionCloseCalls > before
	return
}

// VerifH_C15_reader: arbitrary byte stream, arbitrary fragmentation, optional injected
// stream error, arbitrary read limit, a script of NextReader / partial Read / drain steps.
func VerifHT_C15_reader_script() {
	c15Script(4, 3, -1, true, true, 0)
}

// Quick variants: the same oracle with a fixed call pattern each.
func VerifH_C15_reader_next_read_next() { c15Script(8, 3, 0b010, false, false, 2) }
func VerifHT_C15_reader_t_next_read_next() { c15Script(10, 3, 0b010, false, false, 3) }
func VerifHT_C15_reader_t_next_read_read() { c15Script(14, 3, 0b110, false, false, 5) }
func VerifHT_C15_reader_t_fault_next_next() { c15Script(11, 2, 0b00, true, false, 3) }
func VerifHT_C15_reader_t_fault_next_read() { c15Script(14, 2, 0b10, true, false, 5) }
func VerifHT_C15_reader_symfrag() { c15Script(5, 3, 0b010, false, true, 0) }
func VerifH_C15_reader_next_read_read() { c15Script(12, 3, 0b110, false, false, 3) }
func VerifH_C15_reader_fault_next_next() { c15Script(10, 2, 0b00, true, false, 1) }
func VerifH_C15_reader_fault_next_read() { c15Script(12, 2, 0b10, true, false, 2) }

// c15Script: pattern < 0 = every step chosen freely; otherwise bit k of pattern says
// whether step k is a Read (1) or a NextReader (0).  inject: a stream error may be
// injected at any Read of the stream; frag: the stream fragments reads arbitrarily.
func c15Script(L, K, pattern int, inject, frag bool, nchunk int) {
	c15ScriptX(L, K, pattern, inject, frag, nchunk, 0)
}

// c15ScriptChunk: at most `chunk` bytes per stream read, the injected failure at any of the first 8 reads.
func c15ScriptChunk(L, K, pattern int, inject bool, chunk int) {
	c15ScriptX(L, K, pattern, inject, false, 0, chunk)
}

func c15ScriptX(L, K, pattern int, inject, frag bool, nchunk int, fixedChunk int) {
	data := verif.Bytes(L)
	rd := &fakeReader{data: data, fail: -1, frag: frag}
	rd.eofWithData = verif.Bool()
	if fixedChunk > 0 {
		rd.chunk = fixedChunk
	} else if !frag {
		// concrete fragmentation: unlimited, or at most 1, 3, 2, 5 bytes per stream read (first nchunk options)
		rd.chunk = [5]int{0, 1, 3, 2, 5}[verif.Choose(nchunk)]
	}
	if inject && verif.Bool() {
		if fixedChunk > 0 {
			rd.fail = verif.Choose(8)
		} else {
			rd.fail = verif.Choose(4)
		}
		rd.err = pickInjectedErr()
	}
	lim := verif.Int64()
	st := &fakeStream{rd: rd, failAt: -1}
	c := NewConn(zzmodels.StubSession(), st, true, 16, 0, nil, nil, nil)
	c.SetReadLimit(lim)

	off := 0 // reference: offset of the next frame header
	var cur io.Reader
	var hdr refHeader
	got := 0 // payload bytes delivered for the current message
	var firstErr error
	for step := 0; step < K; step++ {
		var op int
		if pattern < 0 {
			op = verif.Choose(2)
		} else {
			op = (pattern >> uint(step)) & 1
		}
		switch op {
		case 0: // NextReader
			mt, r, err, closed := callNextReader(c)
			if firstErr != nil {
				verif.Assert(err == firstErr, "sticky error from NextReader")
				verif.Assert(r == nil, "no reader after failure")
				continue
			}
			if cur != nil { // the unread rest of the previous message is skipped
				off = refAdvance(off, hdr, len(data))
			}
			cur, got = nil, 0
			h := refParse(data, off)
			if err != nil {
				firstErr = err
				verif.Assert(r == nil, "no reader together with an error")
				if err == ErrReadLimit {
					verif.Assert(h.ok && (h.ulen >= 1<<63 || (lim > 0 && int64(h.ulen) > lim)), "limit error only for an oversized or negative declared length")
					if h.ulen < 1<<63 && verif.Symbolic() {
						verif.Assert(closed, "session closed on limit violation")
					}
				} else if verif.Symbolic() {
					verif.Assert(!closed, "session closed only for limit violations")
				}
				continue
			}
			verif.Assert(h.ok, "a delivered message has a complete header in the stream")
			verif.Assert(mt == h.kind, "message kind")
			verif.Assert(h.ulen < 1<<63, "declared length >= 2^63 rejected")
			verif.Assert(lim <= 0 || int64(h.ulen) <= lim, "read limit enforced before delivery")
			if verif.Symbolic() {
				verif.Assert(!closed, "no close without violation")
			}
			hdr, cur = h, r
		case 1: // partial read on the current reader
			if cur == nil {
				continue
			}
			b := make([]byte, verif.Int(0, 20))
			n, err := cur.Read(b)
			verif.Assert(n >= 0 && n <= len(b), "Read count within buffer")
			verif.Assert(uint64(got+n) <= hdr.ulen, "never more than declared")
			verif.Assert(off+hdr.size+got+n <= len(data), "never more than supplied")
			j := verif.Int(0, 19)
			if j < n {
				verif.Assert(b[j] == data[off+hdr.size+got+j], "payload bytes intact")
			}
			got += n
			if err == io.EOF {
				verif.Assert(uint64(got) == hdr.ulen, "clean EOF only at the declared end")
			}
			if err == nil && len(b) > 0 {
				verif.Assert(n > 0, "progress")
			}
			if err != nil && err != io.EOF {
				// failure inside the frame: must be sticky from now on
				if firstErr == nil {
					firstErr = err
				}
				_, err2 := cur.Read(b)
				verif.Assert(err2 == firstErr || err2 == errUnexpectedEOF, "sticky error from Read")
			}
			if err == io.EOF {
				off = refAdvance(off, hdr, len(data))
				cur = nil
			}
		}
	}
	if rd.fail >= 0 && rd.calls > rd.fail && firstErr == nil {
		// the stream failed underneath one of the calls above and none of them said so
		_, _, err, _ := callNextReader(c)
		verif.Assert(err != nil, "a stream failure is never swallowed: it is reported, at the latest by the next call")
		_, _, err2, _ := callNextReader(c)
		verif.Assert(err2 == err, "and stays reported")
	}
}

// VerifH_C15_fault_while_skipping: one stream read fails while the unread rest of a message
// is being skipped on the way to the next message (one byte per stream read, so the skip
// needs several reads; the stream keeps serving data after the failed read).
func VerifH_C15_fault_while_skipping() { c15ScriptChunk(5+verif.Tier(), 2, 0b00, true, 1) }
func VerifHT_C15_fault_while_skipping_after_read() { c15ScriptChunk(6, 3, 0b010, true, 1) }

// C10: the WebTransport read limit, any 64-bit declared length against any limit: the
// same reader oracle as C15 (limit enforced before delivery, ErrReadLimit, session close).
func VerifH_C10_wt_frame_limit() { c15Script(10, 2, 0b00, false, false, 1) }

// C09: the reader never panics on arbitrary bytes (free choice of calls): same oracle as C15.
func VerifH_C09_wt_reader_bytes()  { c15Script(4, 2, -1, false, false, 2) }
func VerifHT_C09_wt_reader_bytes6() { c15Script(6, 3, -1, false, false, 2) }

// VerifH_C15_stale_reader: a reader kept from an earlier message and used again after
// NextReader has moved on returns nothing (it must not deliver bytes of the next message,
// which would be more than its own header declared), and the current message stays intact.
func VerifH_C15_stale_reader() {
	data := verif.Bytes(6)
	rd := &fakeReader{data: data, fail: -1}
	rd.chunk = [2]int{0, 1}[verif.Choose(2)]
	c := NewConn(nil, &fakeStream{rd: rd, failAt: -1}, true, 16, 0, nil, nil, nil)
	_, r1, err1 := c.NextReader()
	if err1 != nil {
		return
	}
	h1 := refParse(data, 0)
	b := make([]byte, verif.Int(0, 3))
	n1, _ := r1.Read(b)
	_, r2, err2 := c.NextReader()
	if err2 != nil {
		return
	}
	off2 := refAdvance(0, h1, len(data))
	h2 := refParse(data, off2)
	verif.Assert(h2.ok, "the second message has a complete header")
	old := make([]byte, 4)
	n, err := r1.Read(old)
	verif.Assert(n == 0 && err != nil, "a reader of an earlier message returns nothing once NextReader has moved on")
	verif.Assert(uint64(n1+n) <= h1.ulen, "never more than its own header declared")
	cur := make([]byte, 4)
	m, _ := r2.Read(cur)
	j := verif.Int(0, 3)
	if j < m {
		verif.Assert(cur[j] == data[off2+h2.size+j], "the current message is intact")
	}
}

// VerifH_C15_readmessage: the convenience call ReadMessage (NextReader + read everything)
// on an arbitrary byte stream with an arbitrary read limit (zero and negative = unlimited):
// never a panic, never more payload than declared or supplied, limit enforced, a stream
// that ends inside the frame is an error together with the bytes that did arrive.
func VerifH_C15_readmessage() {
	data := verif.Bytes(10 + verif.Tier())
	rd := &fakeReader{data: data, fail: -1}
	if verif.Tier() > 0 {
		rd.chunk = [2]int{0, 3}[verif.Choose(2)]
	}
	lim := verif.Int64()
	c := NewConn(zzmodels.StubSession(), &fakeStream{rd: rd, failAt: -1}, true, 16, 0, nil, nil, nil)
	c.SetReadLimit(lim)
	mt, p, err := c.ReadMessage()
	h := refParse(data, 0)
	if err == nil {
		verif.Assert(h.ok && mt == h.kind, "a delivered message has a complete header and its kind")
		verif.Assert(uint64(len(p)) == h.ulen, "exactly the declared payload")
		verif.Assert(lim <= 0 || int64(h.ulen) <= lim, "read limit enforced before delivery")
		j := verif.Int(0, 10)
		if j < len(p) && h.size+j < len(data) {
			verif.Assert(p[j] == data[h.size+j], "payload bytes intact")
		}
	} else {
		verif.Assert(uint64(len(p)) <= h.ulen || !h.ok, "never more than declared")
		verif.Assert(len(p) <= len(data), "never more than supplied")
		if err == ErrReadLimit {
			verif.Assert(h.ok && (h.ulen >= 1<<63 || (lim > 0 && int64(h.ulen) > lim)), "limit error only for an oversized or negative declared length")
		}
	}
	_, _, err2 := c.ReadMessage()
	if err != nil {
		verif.Assert(err2 != nil, "a failed connection stays failed")
	}
}

// VerifH_C15_fault_with_data: the stream fails on a read that also returned bytes (legal for
// an io.Reader; QUIC streams do it) and serves further bytes afterwards; the payload is read
// with a caller buffer at least as large as the connection's read buffer (so the library
// reads straight through).  Bytes that arrived before the failure may still be delivered;
// nothing the stream returned AFTER the failed read is ever delivered, the failure is
// reported before the reader could get past it, and every later call reports the same failure.
func VerifH_C15_fault_with_data() {
	L := 24 + 8*verif.Tier()
	payload := verif.BytesN(L)
	data := append([]byte{0x80 | byte(L)}, payload...)
	data = append(data, 0x80|2, 'o', 'k', 0x80|1, '!')
	rd := &fakeReader{data: data, fail: verif.Choose(3), failWithData: true, posAtFail: -1}
	rd.err = pickInjectedErr()
	rd.chunk = [2]int{5, 17}[verif.Choose(2)]
	c := NewConn(zzmodels.StubSession(), &fakeStream{rd: rd, failAt: -1}, true, 16, 0, nil, nil, nil)
	consumed := 0 // stream offset of the last byte handed to the application (headers included)
	var firstErr error
	buf := make([]byte, 32)
	for msg := 0; msg < 4 && firstErr == nil; msg++ {
		_, r, err := c.NextReader()
		if err != nil {
			firstErr = err
			break
		}
		h := refParse(data, consumed)
		verif.Assert(h.ok, "a delivered message has a complete header in the stream")
		consumed += h.size
		for i := 0; i < 6; i++ {
			n, e := r.Read(buf)
			consumed += n
			if e == io.EOF {
				break
			}
			if e != nil {
				firstErr = e
				break
			}
		}
		if rd.posAtFail >= 0 {
			verif.Assert(consumed <= rd.posAtFail, "nothing the stream returned after a failed read is ever delivered")
		}
	}
	verif.Assert(firstErr != nil, "the failure (or the end of the stream) is reported")
	if rd.posAtFail >= 0 {
		verif.Assert(consumed <= rd.posAtFail, "nothing the stream returned after a failed read is ever delivered")
	}
	_, _, e2 := c.NextReader()
	verif.Assert(e2 == firstErr, "once a read has failed every later read reports the same failure")
}
