package webtransport

import (
	"io"

	verif "github.com/zishang520/engine.io/v2/internal/zzverif"
)

// checkOneFrame asserts that the wire is exactly one reference frame for (kind, data).
func checkOneFrame(st *fakeStream, kind int, data []byte) {
	n := len(data)
	hl := refHeaderLen(n)
	verif.Assert(st.total() == hl+n, "wire is exactly header+payload")
	i := verif.Choose(9)
	if i < hl && i < st.total() {
		verif.Assert(st.at(i) == refHeaderByte(kind, n, i), "header byte")
	}
	j := verif.Int64()
	if j >= 0 && j < int64(n) && hl+int(j) < st.total() {
		verif.Assert(st.at(hl+int(j)) == data[j], "payload byte")
	}
	verif.Observe("wireLen", st.total())
}

// C14 encoder, server one-shot path: every length 0..2^62, both kinds.
func VerifH_C14_oneshot_server() {
	kind := verif.Choose(2) + 1
	data := verif.Bytes(1 << 62)
	st := &fakeStream{failAt: -1}
	c := NewConn(nil, st, true, 0, 4, nil, nil, nil)
	err := c.WriteMessage(kind, data)
	verif.Assert(err == nil, "no error")
	checkOneFrame(st, kind, data)
}

// Client one-shot path (NextWriter + Write + Close): lengths up to 2^31 (the writer
// buffers the whole message, so the length is bounded by what can be allocated).
func VerifH_C14_oneshot_client() {
	kind := verif.Choose(2) + 1
	data := verif.Bytes(1 << 31)
	st := &fakeStream{failAt: -1}
	c := NewConn(nil, st, false, 0, 4, nil, nil, nil)
	err := c.WriteMessage(kind, data)
	verif.Assert(err == nil, "no error")
	checkOneFrame(st, kind, data)
}

// Streaming writer, one Write of arbitrary length followed by Close (server and client
// flavour, with and without a buffer pool).
func VerifH_C14_stream_single_write() {
	kind := verif.Choose(2) + 1
	data := verif.Bytes(1 << 31)
	st := &fakeStream{failAt: -1}
	c := pickConn(st, 4)
	wr, err := c.NextWriter(kind)
	verif.Assert(err == nil, "NextWriter")
	n, err := wr.Write(data)
	verif.Assert(err == nil && n == len(data), "Write")
	verif.Assert(wr.Close() == nil, "Close")
	checkOneFrame(st, kind, data)
}

// Streaming writer fed by two writes split at an arbitrary point.
func VerifH_C14_stream_two_writes() {
	kind := verif.Choose(2) + 1
	data := verif.Bytes(1 << 20)
	a := verif.Int64()
	verif.Assume(a >= 0 && a <= int64(len(data)))
	st := &fakeStream{failAt: -1}
	c := NewConn(nil, st, verif.Bool(), 0, 4, nil, nil, nil)
	wr, err := c.NextWriter(kind)
	verif.Assert(err == nil, "NextWriter")
	n1, e1 := wr.Write(data[:a])
	n2, e2 := wr.Write(data[a:])
	verif.Assert(e1 == nil && e2 == nil && n1+n2 == len(data), "Writes")
	verif.Assert(wr.Close() == nil, "Close")
	checkOneFrame(st, kind, data)
}

// Prepared message written to a server or client connection: every length.
func VerifH_C14_prepared() {
	kind := verif.Choose(2) + 1
	data := verif.Bytes(1 << 31)
	st := &fakeStream{failAt: -1}
	c := NewConn(nil, st, verif.Bool(), 0, 4, nil, nil, nil)
	pm, err := NewPreparedMessage(kind, data)
	verif.Assert(err == nil, "NewPreparedMessage")
	if err != nil {
		return
	}
	verif.Assert(c.WritePreparedMessage(pm) == nil, "WritePreparedMessage")
	checkOneFrame(st, kind, data)
}

// A message type other than text/binary is refused and nothing is written.
func VerifH_C14_bad_type() {
	kind := int(verif.Int64())
	verif.Assume(kind != TextMessage && kind != BinaryMessage)
	st := &fakeStream{failAt: -1}
	c := NewConn(nil, st, verif.Bool(), 0, 4, nil, nil, nil)
	err := c.WriteMessage(kind, verif.Bytes(8))
	verif.Assert(err != nil, "bad message type refused")
	verif.Assert(st.total() == 0, "nothing written for a refused message")
}

// Decoder: a stream of up to two reference frames, each in the minimal or a non-minimal
// length form (126 with n < 126, 127 with n < 65536 or n < 126), zero length included.
func VerifH_C14_decoder_forms() {
	var wire []byte
	kinds := [2]int{}
	datas := [2][]byte{}
	m := verif.Choose(2) + 1
	for k := 0; k < m; k++ {
		kinds[k] = verif.Choose(2) + 1
		n := verif.Concretize(verif.Int(0, 3))
		datas[k] = verif.BytesN(n)
		var b0 byte
		if kinds[k] == BinaryMessage {
			b0 = 0x80
		}
		switch verif.Choose(3) {
		case 0:
			wire = append(wire, b0|byte(n))
		case 1:
			wire = append(wire, b0|126, byte(n>>8), byte(n))
		default:
			wire = append(wire, b0|127, 0, 0, 0, 0, 0, 0, byte(n>>8), byte(n))
		}
		wire = append(wire, datas[k]...)
	}
	rc, _ := newReaderConn(wire, 3)
	for k := 0; k < m; k++ {
		expectMessage(rc, kinds[k], datas[k], "frame")
	}
	expectEnd(rc, "stream")
}

// Decoder, length classes: a single frame whose 16-bit / 64-bit length field is symbolic;
// NextReader must announce the kind and deliver exactly the declared number of bytes
// (payload supplied up to 40 bytes; longer declared lengths must end as unexpected EOF).
func VerifH_C14_decoder_lengths() {
	kind := verif.Choose(2) + 1
	var b0 byte
	if kind == BinaryMessage {
		b0 = 0x80
	}
	form := verif.Choose(2)
	var hdr []byte
	var declared uint64
	if form == 0 {
		hi, lo := verif.Byte(), verif.Byte()
		hdr = []byte{b0 | 126, hi, lo}
		declared = uint64(hi)<<8 | uint64(lo)
	} else {
		v := verif.Uint64()
		verif.Assume(v < 1<<63)
		hdr = []byte{b0 | 127, byte(v >> 56), byte(v >> 48), byte(v >> 40), byte(v >> 32), byte(v >> 24), byte(v >> 16), byte(v >> 8), byte(v)}
		declared = v
	}
	payload := verif.BytesN(verif.Int(0, 5))
	wire := append(hdr, payload...)
	rc, _ := newReaderConn(wire, 1)
	mt, r, err := rc.NextReader()
	verif.Assert(err == nil && r != nil, "header accepted")
	if err != nil {
		return
	}
	verif.Assert(mt == kind, "kind")
	buf := make([]byte, 16)
	total := 0
	var rerr error
	for i := 0; i < 3 && rerr == nil; i++ {
		var n int
		n, rerr = r.Read(buf)
		j := verif.Int(0, 15)
		if j < n && total+j < len(payload) {
			verif.Assert(buf[j] == payload[total+j], "payload bytes")
		}
		total += n
	}
	if declared <= uint64(len(payload)) {
		verif.Assert(uint64(total) == declared, "exactly the declared bytes")
		verif.Assert(rerr == io.EOF, "clean end at the declared length")
	} else {
		verif.Assert(total == len(payload), "all supplied bytes")
		verif.Assert(rerr == errUnexpectedEOF, "truncated frame reported as unexpected EOF")
	}
}
