package webtransport

import (
	verif "github.com/zishang520/engine.io/v2/internal/zzverif"
)

// checkOneFrame asserts that the wire is exactly one reference frame for (kind, data).
func checkOneFrame(st *fakeStream, kind int, data []byte) {
	n := len(data)
	hl := refHeaderLen(n)
	verif.Assert(st.total() == hl+n, "wire is exactly header+payload")
	i := verif.Choose(9)
	if i < hl && i < st.total() {
		verif.Assert(st.at(i) == refHeaderByte(kind, n, i), "header byte")
	}
	j := verif.Int64()
	if j >= 0 && j < int64(n) && hl+int(j) < st.total() {
		verif.Assert(st.at(hl+int(j)) == data[j], "payload byte")
	}
	verif.Observe("wireLen", st.total())
}

// C14 encoder, server one-shot path: every length 0..2^62, both kinds.
func VerifH_C14_oneshot_server() {
	kind := verif.Choose(2) + 1
	data := verif.Bytes(1 << 62)
	st := &fakeStream{failAt: -1}
	c := NewConn(nil, st, true, 0, 4, nil, nil, nil)
	err := c.WriteMessage(kind, data)
	verif.Assert(err == nil, "no error")
	checkOneFrame(st, kind, data)
}
