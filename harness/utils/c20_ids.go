package utils

import (
	"sync"

	verif "github.com/zishang520/engine.io/v2/internal/zzverif"
)

func urlSafe(c byte) bool {
	return (c >= 'A' && c <= 'Z') || (c >= 'a' && c <= 'z') || (c >= '0' && c <= '9') || c == '-' || c == '_'
}

// base64 ids: for ANY random bytes and ANY counter value, two consecutive ids differ,
// are 24 characters long and URL-safe (real encoding/base64 and encoding/binary code).
func VerifH_C20_base64id() {
	b := &base64Id{}
	b.sequenceNumber.Store(verif.Uint64())
	id1, e1 := b.GenerateId()
	id2, e2 := b.GenerateId()
	verif.Assert(e1 == nil && e2 == nil, "no error")
	verif.Assert(len(id1) == 24 && len(id2) == 24, "24 characters")
	verif.Assert(id1 != id2, "consecutive ids differ")
	j := verif.Int(0, 23)
	verif.Assert(urlSafe(id1[j]), "URL-safe alphabet")
	if verif.Tier() > 0 {
		id3, _ := b.GenerateId()
		verif.Assert(id3 != id1 && id3 != id2, "third id differs")
	}
}

// yeast: three sequential calls at arbitrary non-decreasing instants never repeat a value.
func VerifH_C20_yeast_sequential() {
	y := NewYeast()
	verif.ClockAlign()
	d1, d2 := verif.Int64(), verif.Int64()
	verif.Assume(d1 >= 0 && d1 <= 2 && d2 >= 0 && d2 <= 2)
	a := y.Yeast()
	verif.ClockAdvance(d1)
	b := y.Yeast()
	verif.ClockAdvance(d2)
	c := y.Yeast()
	verif.Assert(a != b, "first and second differ")
	verif.Assert(b != c, "second and third differ")
	verif.Assert(a != c, "first and third differ")
}

// Encode is injective on the instants a process can see (two different non-negative
// numbers never encode to the same string) and uses only the URL-safe alphabet.
func VerifH_C20_yeast_encode() {
	y := NewYeast()
	m, n := verif.Int64(), verif.Int64()
	verif.Assume(m >= 0 && n >= 0 && m != n && m < 1<<42 && n < 1<<42)
	a, b := y.Encode(m), y.Encode(n)
	verif.Assert(a != b, "Encode injective")
	if len(a) > 0 {
		verif.Assert(urlSafe(a[verif.Int(0, len(a)-1)]), "URL-safe alphabet")
	}
}

// yeast under concurrent use: two goroutines calling Yeast at the same instant never get
// the same value.  Symbolically the scheduler may preempt a goroutine at each of its
// atomic operations (up to 2 preemptions); natively the same property is stressed.
func VerifH_C20_yeast_concurrent() {
	if !verif.Symbolic() {
		for round := 0; round < 3000; round++ {
			y := NewYeast()
			var a, b string
			var wg sync.WaitGroup
			start := make(chan struct{})
			wg.Add(2)
			go func() { defer wg.Done(); <-start; a = y.Yeast() }()
			go func() { defer wg.Done(); <-start; b = y.Yeast() }()
			close(start)
			wg.Wait()
			if a == b {
				verif.Assert(false, "concurrent calls return different values")
				return
			}
		}
		return
	}
	y := NewYeast()
	var a, b string
	verif.PreemptBudget(2)
	go func() { a = y.Yeast() }()
	go func() { b = y.Yeast() }()
	verif.Settle()
	verif.PreemptBudget(0)
	verif.Assert(a != "" && b != "", "both calls returned")
	verif.Assert(a != b, "concurrent calls return different values")
}

// base64 ids under concurrent use: two goroutines get different ids (preemption at the
// atomic counter symbolically; stress natively).
func VerifH_C20_base64id_concurrent() {
	if !verif.Symbolic() {
		for round := 0; round < 2000; round++ {
			var a, b string
			var wg sync.WaitGroup
			wg.Add(2)
			go func() { defer wg.Done(); a, _ = Base64Id().GenerateId() }()
			go func() { defer wg.Done(); b, _ = Base64Id().GenerateId() }()
			wg.Wait()
			if a == b {
				verif.Assert(false, "concurrent ids differ")
				return
			}
		}
		return
	}
	g := &base64Id{}
	g.sequenceNumber.Store(verif.Uint64())
	var a, b string
	verif.PreemptBudget(2)
	go func() { a, _ = g.GenerateId() }()
	go func() { b, _ = g.GenerateId() }()
	verif.Settle()
	verif.PreemptBudget(0)
	verif.Assert(len(a) == 24 && len(b) == 24 && a != b, "concurrent ids differ")
}

// VerifH_C20_yeast_across_milliseconds: a call is overtaken at the generator's lock by a
// call made in a later millisecond (the harness holds the lock to park the first caller,
// lets the clock advance, releases the lock and calls at once): all ids ever returned are
// still different.  Natively the overtaking depends on the runtime's lock hand-off, so the
// scenario is repeated until it happens (bounded).
func VerifH_C20_yeast_across_milliseconds() {
	rounds := 1
	if !verif.Symbolic() {
		rounds = 40
	}
	for round := 0; round < rounds; round++ {
		y := NewYeast()
		verif.ClockAlign()
		id0 := y.Yeast() // an id issued in millisecond T1
		var idA string
		done := make(chan struct{})
		y.mu.Lock()
		go func() {
			idA = y.Yeast() // starts in T1, waits for the lock
			close(done)
		}()
		verif.Settle()
		verif.ClockAdvance(2) // T2 > T1
		y.mu.Unlock()
		idB := y.Yeast() // a call in T2, possibly ahead of the waiting one
		<-done
		idC := y.Yeast()
		ok := id0 != idA && id0 != idB && id0 != idC && idA != idB && idA != idC && idB != idC
		verif.Assert(ok, "no id is ever returned twice, also when a call is overtaken across a millisecond boundary")
		if !ok {
			return
		}
	}
}
