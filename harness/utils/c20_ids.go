package utils

import (
	verif "github.com/zishang520/engine.io/v2/internal/zzverif"
)

func urlSafe(c byte) bool {
	return (c >= 'A' && c <= 'Z') || (c >= 'a' && c <= 'z') || (c >= '0' && c <= '9') || c == '-' || c == '_'
}

// base64 ids: for ANY random bytes and ANY counter value, two consecutive ids differ,
// are 24 characters long and URL-safe (real encoding/base64 and encoding/binary code).
func VerifH_C20_base64id() {
	b := &base64Id{}
	b.sequenceNumber.Store(verif.Uint64())
	id1, e1 := b.GenerateId()
	id2, e2 := b.GenerateId()
	verif.Assert(e1 == nil && e2 == nil, "no error")
	verif.Assert(len(id1) == 24 && len(id2) == 24, "24 characters")
	verif.Assert(id1 != id2, "consecutive ids differ")
	j := verif.Int(0, 23)
	verif.Assert(urlSafe(id1[j]), "URL-safe alphabet")
	if verif.Tier() > 0 {
		id3, _ := b.GenerateId()
		verif.Assert(id3 != id1 && id3 != id2, "third id differs")
	}
}

// yeast: three sequential calls at arbitrary non-decreasing instants never repeat a value.
func VerifH_C20_yeast_sequential() {
	y := NewYeast()
	verif.ClockAlign()
	d1, d2 := verif.Int64(), verif.Int64()
	verif.Assume(d1 >= 0 && d1 <= 2 && d2 >= 0 && d2 <= 2)
	a := y.Yeast()
	verif.ClockAdvance(d1)
	b := y.Yeast()
	verif.ClockAdvance(d2)
	c := y.Yeast()
	verif.Assert(a != b, "first and second differ")
	verif.Assert(b != c, "second and third differ")
	verif.Assert(a != c, "first and third differ")
}

// Encode is injective on the instants a process can see (two different non-negative
// numbers never encode to the same string) and uses only the URL-safe alphabet.
func VerifH_C20_yeast_encode() {
	y := NewYeast()
	m, n := verif.Int64(), verif.Int64()
	verif.Assume(m >= 0 && n >= 0 && m != n && m < 1<<42 && n < 1<<42)
	a, b := y.Encode(m), y.Encode(n)
	verif.Assert(a != b, "Encode injective")
	if len(a) > 0 {
		verif.Assert(urlSafe(a[verif.Int(0, len(a)-1)]), "URL-safe alphabet")
	}
}
