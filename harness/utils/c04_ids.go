package utils

// C04: session ids are unique, never reused and URL-safe: the same obligations as C20's id harness.
func VerifH_C04_ids() { VerifH_C20_base64id() }
