package utils

import (
	"time"

	verif "github.com/zishang520/engine.io/v2/internal/zzverif"
)

// C19: the repository's own utils/timer.go, executed on the runtime time.Timer model
// (symbolic) / under a synctest bubble (native).  The yield hook of timer.go (build tag
// verif) marks the points where a call from another goroutine may interleave with the
// timer's own goroutine; the harness injects a concurrent Stop / Refresh there.

// curPoint is the yield point of timer.go at which the current goroutine stands.
var curPoint string

func init() {
	VerifYield = func(point string) {
		curPoint = point
		verif.Yield(point)
		curPoint = ""
	}
}

// atTick: the timer's goroutine has received a tick and not yet acted on it.
func atTick() bool { return curPoint == "timeout:tick" || curPoint == "interval:tick" }

// timerRef is the reference model, written from the property text: a timer is armed with a
// due instant; a timeout fires once at its due instant, an interval once per period; Stop
// disarms; Refresh makes the callback due one full period after the refresh.  A tick whose
// instant is <= the instant of a call counts as fired before that call.
type timerRef struct {
	p        int64
	interval bool
	armed    bool
	due      int64
	expect   []int64
	// optional: due instants at which a call from another goroutine raced with the tick
	// itself (issued at exactly the due instant, after the tick was taken, before it was
	// acted on): the statement allows either order, so the callback of that instant may
	// or may not run
	optional []int64
}

func (r *timerRef) advance(t int64) {
	for r.armed && r.due <= t {
		r.expect = append(r.expect, r.due)
		if r.interval {
			r.due += r.p
		} else {
			r.armed = false
		}
	}
}
func (r *timerRef) stop(now int64)    { r.advance(now); r.armed = false }
func (r *timerRef) refresh(now int64) { r.advance(now); r.armed = true; r.due = now + r.p }

// matches: calls is expect with any subset of the optional instants left out.
func (r *timerRef) matches(calls []int64) bool {
	i := 0
	for _, e := range r.expect {
		if i < len(calls) && calls[i] == e {
			i++
			continue
		}
		opt := false
		for _, o := range r.optional {
			if o == e {
				opt = true
			}
		}
		if !opt {
			return false
		}
	}
	return i == len(calls)
}

// c19Script: one timer (timeout or interval, symbolic period), a script of `steps` calls at
// symbolic virtual instants (sleep, Stop, ClearTimeout/ClearInterval, Refresh), and at most
// `inject` concurrent calls (Stop, Refresh) from another goroutine landing at the yield
// points of timer.go.
func c19Script(interval bool, steps, inject int) {
	verif.RealTimers()
	p := verif.Int64()
	verif.Assume(p >= 1 && p <= 1<<40)
	var calls []int64
	cb := func() { calls = append(calls, verif.Now()) }
	ref := &timerRef{p: p, interval: interval, armed: true, due: verif.Now() + p}
	var tm *Timer
	if interval {
		tm = SetInterval(cb, time.Duration(p))
	} else {
		tm = SetTimeout(cb, time.Duration(p))
	}
	inMainStop := false
	verif.Event("another goroutine cancels the timer", func() {
		if atTick() {
			ref.optional = append(ref.optional, verif.Now())
		}
		tm.Stop()
		ref.stop(verif.Now())
	})
	verif.Event("another goroutine refreshes the timer", func() {
		if inMainStop {
			return // Stop || Refresh: either order is a legal outcome; not judged here
		}
		if atTick() {
			ref.optional = append(ref.optional, verif.Now())
		}
		tm.Refresh()
		ref.refresh(verif.Now())
	})
	verif.InjectBudget(inject)
	for step := 0; step < steps; step++ {
		switch verif.Choose(4) {
		case 0: // time passes
			t := verif.Int64()
			verif.Assume(t >= verif.Now() && t <= verif.Now()+p+p+p)
			verif.SleepUntil(t)
			ref.advance(t)
		case 1:
			inMainStop = true
			tm.Stop()
			inMainStop = false
			ref.stop(verif.Now())
		case 2:
			inMainStop = true
			if interval {
				ClearInterval(tm)
			} else {
				ClearTimeout(tm)
			}
			inMainStop = false
			ref.stop(verif.Now())
		case 3:
			if !ref.armed && len(ref.expect) == 0 {
				// refreshing a cancelled timer that never fired: the statement does not say
				continue
			}
			tm.Refresh()
			ref.refresh(verif.Now())
		}
		verif.Settle()
		verif.Assert(ref.matches(calls), "the callback has run exactly at the instants the statement names, once each")
		if ref.armed {
			verif.Assert(verif.Goroutines() == 1, "an armed timer is served by exactly one goroutine")
		} else {
			verif.Assert(verif.Goroutines() == 0, "no goroutine belonging to a fired or cancelled timer is left behind")
		}
	}
	verif.InjectBudget(0)
	// a long quiet period: a cancelled timer never fires again, an armed one keeps its schedule
	end := verif.Now() + p + p
	verif.SleepUntil(end)
	ref.advance(end)
	verif.Settle()
	verif.Assert(ref.matches(calls), "after the script: callbacks only at the instants the statement names")
	tm.Stop()
	ref.stop(verif.Now())
	verif.Settle()
	verif.Assert(verif.Goroutines() == 0, "after the final cancellation no goroutine of the timer is left")
	verif.SleepUntil(verif.Now() + p + p)
	verif.Assert(ref.matches(calls), "after the final cancellation no further callback starts")
}

func VerifH_C19_timeout_script()  { verif.RunTimed(func() { c19Script(false, 2+verif.Tier(), 0) }) }
func VerifH_C19_interval_script() { verif.RunTimed(func() { c19Script(true, 2+verif.Tier(), 0) }) }

// the same scripts with one (thorough: two) concurrent Stop / Refresh from another goroutine
// landing between a tick and its handling, or inside Stop / Refresh
func VerifH_C19_timeout_concurrent()  { verif.RunTimed(func() { c19Script(false, 2, 1+verif.Tier()) }) }
func VerifH_C19_interval_concurrent() { verif.RunTimed(func() { c19Script(true, 2, 1+verif.Tier()) }) }

// nil is a legal argument of the Clear functions
func VerifH_C19_clear_nil() {
	ClearTimeout(nil)
	ClearInterval(nil)
}

// VerifH_C19_cancel_from_callback: the callback itself cancels (or refreshes) its own timer
// -- "poll until done, then stop" -- on its k-th run: the call returns, the callback runs
// no more after a cancellation (exactly once more, one period later, per refresh of a
// timeout), and no goroutine of the timer is left behind.
func VerifH_C19_cancel_from_callback() {
	verif.RunTimed(func() {
		verif.RealTimers()
		p := verif.Int64()
		verif.Assume(p >= 1 && p <= 1<<40)
		interval := verif.Bool()
		k := 1 + verif.Choose(2)
		act := verif.Choose(3) // Stop, Clear..., Refresh (timeouts only)
		var calls []int64
		returned := 0
		var tm *Timer
		cb := func() {
			calls = append(calls, verif.Now())
			if len(calls) != k {
				return
			}
			switch act {
			case 0:
				tm.Stop()
			case 1:
				if interval {
					ClearInterval(tm)
				} else {
					ClearTimeout(tm)
				}
			case 2:
				if !interval {
					tm.Refresh()
				}
			}
			returned++
		}
		if interval {
			tm = SetInterval(cb, time.Duration(p))
		} else {
			tm = SetTimeout(cb, time.Duration(p))
		}
		verif.SleepUntil(p + p + p + p + p)
		verif.Settle()
		switch {
		case interval && act != 2:
			verif.Assert(len(calls) == k && returned == 1, "an interval cancelled from its own callback runs no more, and the cancellation returns")
			verif.Assert(verif.Goroutines() == 0, "no goroutine left behind")
		case interval:
			verif.Assert(len(calls) == 5, "an untouched interval runs once per period")
		case act == 2 && k == 1:
			verif.Assert(len(calls) == 2 && calls[1] == p+p && returned == 1, "a timeout refreshed from its own callback runs once more, one period later")
			verif.Assert(verif.Goroutines() == 0, "no goroutine left behind")
		default:
			verif.Assert(len(calls) == 1 && calls[0] == p, "a timeout runs once")
			if k == 1 {
				verif.Assert(returned == 1, "cancelling a timeout from its own callback returns")
			}
			verif.Assert(verif.Goroutines() == 0, "no goroutine left behind")
		}
		tm.Stop()
		verif.Settle()
		verif.Assert(verif.Goroutines() == 0, "no goroutine left after the final cancellation")
	})
}

// VerifH_C19_cancel_during_callback: another goroutine cancels an interval while one of its
// callbacks is still running (a slow callback): the cancellation returns promptly, without
// waiting for the callback, and no further callback starts.
func VerifH_C19_cancel_during_callback() {
	verif.RunTimed(func() {
		verif.RealTimers()
		p := verif.Int64()
		verif.Assume(p >= 2 && p <= 1<<40)
		interval := verif.Bool()
		release := make(chan struct{})
		started, finished := 0, 0
		cb := func() {
			started++
			<-release // a slow callback
			finished++
		}
		var tm *Timer
		if interval {
			tm = SetInterval(cb, time.Duration(p))
		} else {
			tm = SetTimeout(cb, time.Duration(p))
		}
		verif.SleepUntil(p)
		verif.Settle()
		verif.Assert(started == 1 && finished == 0, "the callback is running")
		tm.Stop() // must not wait for the running callback
		verif.Assert(finished == 0, "cancellation returned while the callback was still running")
		verif.SleepUntil(p + p + p)
		verif.Settle()
		verif.Assert(started == 1, "no further callback starts after the cancellation")
		close(release)
		verif.Settle()
		verif.Assert(finished == 1 && verif.Goroutines() == 0, "the running callback finishes and nothing is left behind")
	})
}
