package utils

import (
	"time"

	verif "github.com/zishang520/engine.io/v2/internal/zzverif"
)

// C19: the repository's own utils/timer.go, executed on the runtime time.Timer model
// (symbolic) / under a synctest bubble (native).  The yield hook of timer.go (build tag
// verif) marks the points where a call from another goroutine may interleave with the
// timer's own goroutine; the harness injects a concurrent Stop / Refresh there.

// curPoint is the yield point of timer.go at which the current goroutine stands.
var curPoint string

func init() {
	VerifYield = func(point string) {
		curPoint = point
		verif.Yield(point)
		curPoint = ""
	}
}

// atTick: the timer's goroutine has received a tick and not yet acted on it.
func atTick() bool { return curPoint == "timeout:tick" || curPoint == "interval:tick" }

// timerRef is the reference model, written from the property text: a timer is armed with a
// due instant; a timeout fires once at its due instant, an interval once per period; Stop
// disarms; Refresh makes the callback due one full period after the refresh.  A tick whose
// instant is <= the instant of a call counts as fired before that call.
type timerRef struct {
	p        int64
	interval bool
	armed    bool
	due      int64
	expect   []int64
	// optional: due instants at which a call from another goroutine raced with the tick
	// itself (issued at exactly the due instant, after the tick was taken, before it was
	// acted on): the statement allows either order, so the callback of that instant may
	// or may not run
	optional []int64
}

func (r *timerRef) advance(t int64) {
	for r.armed && r.due <= t {
		r.expect = append(r.expect, r.due)
		if r.interval {
			r.due += r.p
		} else {
			r.armed = false
		}
	}
}
func (r *timerRef) stop(now int64)    { r.advance(now); r.armed = false }
func (r *timerRef) refresh(now int64) { r.advance(now); r.armed = true; r.due = now + r.p }

// matches: calls is expect with any subset of the optional instants left out.
func (r *timerRef) matches(calls []int64) bool {
	i := 0
	for _, e := range r.expect {
		if i < len(calls) && calls[i] == e {
			i++
			continue
		}
		opt := false
		for _, o := range r.optional {
			if o == e {
				opt = true
			}
		}
		if !opt {
			return false
		}
	}
	return i == len(calls)
}

// c19Script: one timer (timeout or interval, symbolic period), a script of `steps` calls at
// symbolic virtual instants (sleep, Stop, ClearTimeout/ClearInterval, Refresh), and at most
// `inject` concurrent calls (Stop, Refresh) from another goroutine landing at the yield
// points of timer.go.
func c19Script(interval bool, steps, inject int) {
	verif.RealTimers()
	p := verif.Int64()
	verif.Assume(p >= 1 && p <= 1<<40)
	var calls []int64
	cb := func() { calls = append(calls, verif.Now()) }
	ref := &timerRef{p: p, interval: interval, armed: true, due: verif.Now() + p}
	var tm *Timer
	if interval {
		tm = SetInterval(cb, time.Duration(p))
	} else {
		tm = SetTimeout(cb, time.Duration(p))
	}
	inMainStop := false
	verif.Event("another goroutine cancels the timer", func() {
		if atTick() {
			ref.optional = append(ref.optional, verif.Now())
		}
		tm.Stop()
		ref.stop(verif.Now())
	})
	verif.Event("another goroutine refreshes the timer", func() {
		if inMainStop {
			return // Stop || Refresh: either order is a legal outcome; not judged here
		}
		if atTick() {
			ref.optional = append(ref.optional, verif.Now())
		}
		tm.Refresh()
		ref.refresh(verif.Now())
	})
	verif.InjectBudget(inject)
	for step := 0; step < steps; step++ {
		switch verif.Choose(4) {
		case 0: // time passes
			t := verif.Int64()
			verif.Assume(t >= verif.Now() && t <= verif.Now()+p+p+p)
			verif.SleepUntil(t)
			ref.advance(t)
		case 1:
			inMainStop = true
			tm.Stop()
			inMainStop = false
			ref.stop(verif.Now())
		case 2:
			inMainStop = true
			if interval {
				ClearInterval(tm)
			} else {
				ClearTimeout(tm)
			}
			inMainStop = false
			ref.stop(verif.Now())
		case 3:
			if !ref.armed && len(ref.expect) == 0 {
				// refreshing a cancelled timer that never fired: the statement does not say
				continue
			}
			tm.Refresh()
			ref.refresh(verif.Now())
		}
		verif.Settle()
		verif.Assert(ref.matches(calls), "the callback has run exactly at the instants the statement names, once each")
		if ref.armed {
			verif.Assert(verif.Goroutines() == 1, "an armed timer is served by exactly one goroutine")
		} else {
			verif.Assert(verif.Goroutines() == 0, "no goroutine belonging to a fired or cancelled timer is left behind")
		}
	}
	verif.InjectBudget(0)
	// a long quiet period: a cancelled timer never fires again, an armed one keeps its schedule
	end := verif.Now() + p + p
	verif.SleepUntil(end)
	ref.advance(end)
	verif.Settle()
	verif.Assert(ref.matches(calls), "after the script: callbacks only at the instants the statement names")
	tm.Stop()
	ref.stop(verif.Now())
	verif.Settle()
	verif.Assert(verif.Goroutines() == 0, "after the final cancellation no goroutine of the timer is left")
	verif.SleepUntil(verif.Now() + p + p)
	verif.Assert(ref.matches(calls), "after the final cancellation no further callback starts")
}

func VerifH_C19_timeout_script()  { verif.RunTimed(func() { c19Script(false, 2+verif.Tier(), 0) }) }
func VerifH_C19_interval_script() { verif.RunTimed(func() { c19Script(true, 2+verif.Tier(), 0) }) }

// the same scripts with one (thorough: two) concurrent Stop / Refresh from another goroutine
// landing between a tick and its handling, or inside Stop / Refresh
func VerifH_C19_timeout_concurrent()  { verif.RunTimed(func() { c19Script(false, 2, 1+verif.Tier()) }) }
func VerifH_C19_interval_concurrent() { verif.RunTimed(func() { c19Script(true, 2, 1+verif.Tier()) }) }

// nil is a legal argument of the Clear functions
func VerifH_C19_clear_nil() {
	ClearTimeout(nil)
	ClearInterval(nil)
}
