#!/bin/bash
# verify_seed.sh <seed-dir>: confirm a seeded defect in a scratch worktree of /repo:
#  patch applies, module builds, existing tests pass, demo fails with patch and passes without.
set -u
SD=$(realpath "$1")
WT=$(mktemp -d /tmp/seedwt.XXXXXX)
export GOFLAGS=-mod=mod GOPROXY=off
git -C /repo worktree add -q --detach "$WT" HEAD || exit 2
trap 'git -C /repo worktree remove --force "$WT" >/dev/null 2>&1; rm -rf "$WT"' EXIT
cd "$WT"
DEMO_CMD=$(jq -r .demo_cmd "$SD/meta.json")
# place demo files (header comment names the path; fall back to meta demo_files)
for f in "$SD"/demo/*; do
  dest=$(grep -m1 -oE '[a-z]+/[A-Za-z0-9_./-]+_test\.go' "$f" | head -1)
  [ -z "$dest" ] && { echo "cannot find destination for $f"; exit 2; }
  cp "$f" "$WT/$dest"
done
echo "== demo on original (must pass)"
( eval "$DEMO_CMD" ) > /tmp/seed_orig.log 2>&1; ORIG=$?
tail -3 /tmp/seed_orig.log
git apply "$SD/patch.diff" || { echo "patch does not apply"; exit 2; }
echo "== build with patch"
go build ./... || { echo "BUILD FAILS"; exit 2; }
echo "== demo with patch (must fail)"
( eval "$DEMO_CMD" ) > /tmp/seed_mut.log 2>&1; MUT=$?
tail -5 /tmp/seed_mut.log
echo "== existing suite with patch (must pass; demo files removed)"
for f in "$SD"/demo/*; do
  dest=$(grep -m1 -oE '[a-z]+/[A-Za-z0-9_./-]+_test\.go' "$f" | head -1); rm -f "$WT/$dest"
done
go test -vet=off -count=1 ./... > /tmp/seed_suite.log 2>&1; SUITE=$?
grep -v "^ok\|no test files" /tmp/seed_suite.log | head
echo "RESULT orig_demo_exit=$ORIG mutant_demo_exit=$MUT suite_exit=$SUITE"
[ $ORIG -eq 0 ] && [ $MUT -ne 0 ] && [ $SUITE -eq 0 ] && echo "SEED-CONFIRMED" || echo "SEED-REJECTED"
