#!/bin/bash
# run_all.sh [tier]: run every claimed check on /repo's current tree, refresh evidence, validate.
cd /verif
TIER=${1:-quick}
for p in $(python3 -c "import json; print(' '.join(c['property_id'] for c in json.load(open('MANIFEST.json'))['checks']))"); do
  s=$(date +%s)
  out=$(./check $p $TIER 2>&1); rc=$?
  e=$(( $(date +%s) - s ))
  echo "== $p rc=$rc ${e}s"
  echo "$out" | grep -E "^(VIOLATION|KNOWN-FINDING|UNCONFIRMED|INCONCLUSIVE|  INCONCLUSIVE)" | cut -c1-220
done
tools/validate.py | grep -v "^ok"
