#!/bin/bash
# import_seed.sh <agent-worktree> <seed-id>: collect patch.diff, demo and meta.json of a
# sub-agent's seeded defect into /verif/seeded/<seed-id>/ and confirm it (verify_seed.sh).
set -u
WT=$1; ID=$2; SD=/verif/seeded/$ID
[ -f "$WT/SEED_META.json" ] || { echo "no SEED_META.json in $WT"; exit 2; }
mkdir -p "$SD/demo"
git -C "$WT" diff > "$SD/patch.diff"
for f in $(git -C "$WT" ls-files --others --exclude-standard | grep '_test\.go$'); do
  cp "$WT/$f" "$SD/demo/$(basename $f)"
  head -1 "$SD/demo/$(basename $f)" | grep -q "$f" || sed -i "1i // $f" "$SD/demo/$(basename $f)"
done
cp "$WT/SEED_META.json" "$SD/meta.json"
/verif/tools/verify_seed.sh "$SD"
