#!/usr/bin/env python3
"""Regenerates /verif/MANIFEST.json from /verif/checks.json (claimed checks) and
/verif/properties.jsonl (every unclaimed property goes to not_applicable with its reason)."""
import json, os
V = os.path.dirname(os.path.dirname(os.path.abspath(__file__)))
conf = json.load(open(os.path.join(V, "checks.json")))
props = [json.loads(l) for l in open(os.path.join(V, "properties.jsonl")) if l.strip()]
na_reasons = conf.get("_not_applicable", {})
import subprocess
HOOK_COMMITS = subprocess.check_output(["git", "-C", "/repo", "log", "--format=%H", "--grep", "^verif hook:"]).decode().split()
checks, na = [], []
for p in props:
    pid = p["id"]
    c = conf.get(pid)
    if c and c.get("claimed"):
        checks.append({
            "property_id": pid,
            "quick_cmd": "./check %s quick" % pid,
            "thorough_cmd": "./check %s thorough" % pid,
            "evidence_file": "evidence/%s.json" % pid,
            "replay_cmd_template": "./check --replay {path}",
            "engine": "gosymx",
            "level_claimed": {"category": "model_checking", "text": c["level_text"], "design_ref": c.get("design_ref", "DESIGN.md section 3/" + pid)},
            "level_note": c["level_note"],
            "technique": c.get("technique", "bounded symbolic execution of the go/ssa form of the real functions; every branch, implicit panic condition and assertion decided by an SMT solver (z3 5.1.0), counterexamples replayed against the natively compiled code"),
        })
    else:
        na.append({"property_id": pid, "reason": na_reasons.get(pid, "check not built yet (see DESIGN.md section 7 for the build order)")})
m = {
    "version": 1,
    "setup_cmd": "cd /verif/tool && GOFLAGS=-mod=mod GOPROXY=off go build -o /verif/bin/gosymx ./cmd/gosymx",
    "hooks": {
        "guard": "verif",
        "enable": "harnesses and the verif API package are injected through go build overlays (go/packages Overlay for the symbolic run, go test -overlay for native replay); the source hooks are log.VerifYield (build tag 'verif': a callback at every debug log call) utils.VerifYield (a callback at the four points of utils/timer.go where another goroutine's call can interleave with the timer's goroutine) and types.VerifYield (a callback right after listeners have been registered on an emitter), all used as yield points for event injection during native replay and enabled with `go test -tags verif`",
        "baseline_off_cmd": "cd /repo && GOFLAGS=-mod=mod GOPROXY=off go test -vet=off -count=1 ./...",
        "source_commits": HOOK_COMMITS,
        "add_only": True,
    },
    "engines": [{
        "name": "gosymx", "path": "tool/",
        "serves_properties": [c["property_id"] for c in checks],
        "kind_free_text": "own symbolic interpreter for go/ssa (golang.org/x/tools v0.29.0): integers/booleans/bytes are SMT bit-vector/array terms, heap shape concrete; forking path exploration with model-guided branching; z3 5.1.0 (z3-new -in) decides every branch, implicit panic obligation and assertion; cooperative threads, channel/mutex models and atomic event injection for asynchronous events",
    }],
    "checks": checks,
    "not_applicable": na,
    "notes": conf.get("_notes", ""),
}
json.dump(m, open(os.path.join(V, "MANIFEST.json"), "w"), indent=1)
print("claimed:", [c["property_id"] for c in checks])
