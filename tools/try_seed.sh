#!/bin/bash
# try_seed.sh <seed-id> <property>... : apply seeded patch to /repo, run the quick checks, revert.
SD=/verif/seeded/$1; shift
git -C /repo apply "$SD/patch.diff" || { echo "patch does not apply"; exit 2; }
trap 'git -C /repo checkout -- . ; git -C /repo status --short | head -3' EXIT
for p in "$@"; do
  echo "=== $p on $(basename $SD)"
  VERIF_EVIDENCE_DIR=/tmp/verif_seed_evidence /verif/check $p ${TIER:-quick} 2>&1 | grep -E "^(VIOLATION|KNOWN|UNCONFIRMED|INCONCLUSIVE|  harness=|FAIL)" | head -${LINES_MAX:-12}
  echo "rc=${PIPESTATUS[0]}"
done
