#!/bin/bash
# try_seed.sh <seed-id> <property>... : apply a seeded patch to a scratch worktree of /repo
# (or to /repo itself with INPLACE=1), run the checks against it, and remove it again.
SD=/verif/seeded/$1; shift
if [ -n "$INPLACE" ]; then
  R=/repo
  git -C /repo apply "$SD/patch.diff" || { echo "patch does not apply"; exit 2; }
  trap 'git -C /repo checkout -- . ; git -C /repo status --short | head -3' EXIT
else
  R=$(mktemp -d /tmp/seedrepo.XXXXXX)
  git -C /repo worktree add -q --detach "$R" HEAD || exit 2
  trap 'git -C /repo worktree remove --force "$R" >/dev/null 2>&1; rm -rf "$R"' EXIT
  git -C "$R" apply "$SD/patch.diff" || { echo "patch does not apply"; exit 2; }
fi
for p in "$@"; do
  echo "=== $p on $(basename $SD)"
  VERIF_REPO=$R VERIF_EVIDENCE_DIR=/tmp/verif_seed_evidence timeout 1500 /verif/check $p ${TIER:-quick} 2>&1 | grep -E "^(VIOLATION|KNOWN|UNCONFIRMED|INCONCLUSIVE|  harness=|FAIL)" | head -${LINES_MAX:-12}
  echo "rc=${PIPESTATUS[0]}"
done
