#!/bin/bash
# seed_matrix.sh [seed-glob]: run, for every seeded defect, the check of its own property (plus
# the extra properties named in meta.json "also") on a scratch worktree with the patch
# applied; one line per (seed, property): caught (VIOLATION), missed, or unconfirmed.
cd /verif
for d in seeded/${1:-C*}; do
  s=$(basename $d); p=${s%%-*}
  also=$(jq -r '(.also // []) | join(" ")' $d/meta.json 2>/dev/null)
  for q in $p $also; do
    out=$(tools/try_seed.sh $s $q 2>&1)
    v=$(echo "$out" | grep -A1 '^VIOLATION' | grep -o 'harness=[A-Za-z0-9_]*' | sed 's/harness=Verif[HT]*_//' | sort -u | tr '\n' ' ')
    u=$(echo "$out" | grep '^UNCONFIRMED' | grep -o 'harness=[A-Za-z0-9_]*' | sed 's/harness=Verif[HT]*_//' | sort -u | tr '\n' ' ')
    if [ -n "$v" ]; then echo "CAUGHT $s by $q: $v"; elif [ -n "$u" ]; then echo "UNCONFIRMED $s by $q: $u"; else echo "MISSED $s by $q"; fi
  done
done
