#!/opt/veriftools/pyvenv/bin/python3
import json, jsonschema, glob, sys
jsonschema.validate(json.load(open('/verif/MANIFEST.json')), json.load(open('/root/.vp/MANIFEST.schema.json')))
print('manifest ok')
es = json.load(open('/root/.vp/EVIDENCE.schema.json'))
for f in sorted(glob.glob('/verif/evidence/*.json')):
    try:
        jsonschema.validate(json.load(open(f)), es); print('ok', f)
    except Exception as e:
        print('INVALID', f, str(e)[:300])
