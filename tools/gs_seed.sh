#!/bin/bash
# gs_seed.sh <seed-id|-> <prop> <harness-regexp> : run gosymx (symbolic side only) on a scratch
# worktree of /repo with the seeded patch applied ('-' = unchanged tree).
SEED=$1; PROP=$2; RE=$3
R=$(mktemp -d /tmp/gsrepo.XXXXXX)
git -C /repo worktree add -q --detach "$R" HEAD || exit 2
trap 'git -C /repo worktree remove --force "$R" >/dev/null 2>&1; rm -rf "$R"' EXIT
[ "$SEED" != "-" ] && { git -C "$R" apply /verif/seeded/$SEED/patch.diff || exit 2; }
/verif/bin/gosymx -repo "$R" -harness /verif/harness -prop $PROP -tier ${TIER:-quick} -out /tmp/gs_out.json -budget 150 -run "$RE" 2>&1 | grep -E "^(OK|FAIL|INCONCLUSIVE|  FAILURE|  INCONCLUSIVE)" | cut -c1-400
